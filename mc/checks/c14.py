"""C14 -- token matching honours the window and never accepts a code twice.

Reference: ``mc.refs.totp_ref.accept`` (DESIGN Appendix A.3, straight from the property statement).

Part 1 (engine E1, bounded-exhaustive product over the real ``TOTP.match``):
  code family {hmac: real RFC codes, mod3: a TOTP subclass whose ``_generate`` returns counter mod 3, so codes
  collide by construction} x key/alg/digits configuration x period x window x skew x last_counter
  (None, -1 .. top) x every time 0..T x submitted code = the code of every counter 0..top, one well-formed code
  that no counter has, and malformed codes (empty, short, long, letters, valid code with one digit more / less,
  over-long int, negative int).  Sub-parts: the same product with the code given as int / bytes / blank- and
  dash-decorated text (last_counter in {None, -1, expected-1, expected}); the time given as float / datetime.
  Compared: outcome class (Match+counter / Used / Invalid / Malformed) and the TotpMatch fields counter, time,
  expected_counter, skipped, expire_time, cache_time, cache_seconds, tuple form; UsedTokenError.expire_time.

Part 2 (engine E2, explicit-state BFS over the real transition function): state = (application-held
  last_counter, tuple of accepted counters); events = every (time, code) pair of a small alphabet, in any order
  (replayed, stale, future, colliding codes); the application feeds back the counter of each accepted match.
  Every transition is executed on the real ``TOTP.match`` and compared with the model; invariant in every
  reachable state / on every accepting transition: accepted counters strictly increase, none accepted twice.

The library never reads a clock here: every call passes ``time=``, and the class clock is pinned anyway.
"""
from __future__ import annotations

import collections
import datetime as dt
import hashlib
import warnings

from mc import core
from mc.core import Acc, HarnessError
from mc.refs import totp_ref as R

ID = "C14"
LEVEL = "model_checking"
RULE = (
    "E1: full cartesian product code family (real HMAC / colliding mod-3 subclass) x key configuration x period x "
    "window x skew x last_counter (None,-1..top) x every time 0..T x submitted code (code of every counter 0..top; the "
    "quick tier keeps the last_counter values within 2 and the counters within 3 of the window edges and of "
    "last_counter, plus the extremes -1, 0, top; "
    "an unassigned code, 19 malformed codes; sub-parts: int/bytes/decorated forms, float/datetime times); a case is "
    "non-trivial when TOTP.match really ran; distinct class = family|period|window|skew|phase of (time+skew) in the "
    "period|expected outcome|position of the deciding counter relative to window edges and last_counter|code form. "
    "E2: breadth-first search, state = (last_counter, accepted counters), every (time, code) event applied in "
    "every reachable state on the real match(), successor built by feeding back the accepted counter; distinct "
    "states are counted after canonicalisation, transitions = executed match() calls"
)

PINNED = 1_000_000_007
EPOCH = dt.datetime(1970, 1, 1)
EPOCH_UTC = dt.datetime(1970, 1, 1, tzinfo=dt.timezone.utc)

_CLS = {}


def filler(seed, n, salt=b""):
    out = b""
    i = 0
    while len(out) < n:
        out += hashlib.sha256(b"C14:%d:%d:" % (seed, i) + salt).digest()
        i += 1
    return out[:n]


def family_cls(fam):
    """real TOTP (clock pinned) or the colliding driver subclass"""
    if fam not in _CLS:
        from passlib.totp import TOTP

        warnings.simplefilter("ignore")
        base = TOTP.using(now=lambda: PINNED)
        if fam == "hmac":
            _CLS[fam] = base
        elif fam == "mod3":

            class Mod3(base):
                def _generate(self, counter):
                    assert isinstance(counter, int) and counter >= 0
                    return "%0*d" % (self.digits, counter % 3)

            _CLS[fam] = Mod3
        else:
            raise HarnessError(f"unknown code family {fam}")
    return _CLS[fam]


def code_table(fam, key, alg, digits, top):
    if fam == "hmac":
        return [R.hotp(key, c, digits, alg) for c in range(top + 1)]
    return ["%0*d" % (digits, c % 3) for c in range(top + 1)]


def unassigned_code(codes, digits):
    have = set(codes)
    v = 3
    while "%0*d" % (digits, v) in have:
        v += 1
    return "%0*d" % (digits, v)


def normalise(code, digits):
    """-> (well_formed, text, oddity).  oddity: None | 'negative_int' | 'non_ascii_digits'"""
    if isinstance(code, bool):
        return False, None, None
    if isinstance(code, int):
        if code < 0:
            return False, None, "negative_int"
        text = str(code)
        text = "0" * (digits - len(text)) + text
        return len(text) == digits, text, None
    if isinstance(code, bytes):
        try:
            code = code.decode("ascii")
        except UnicodeDecodeError:
            return False, None, None
    text = "".join(ch for ch in code if not (ch.isspace() or ch == "-"))
    if text and all(ch in "0123456789" for ch in text) and len(text) == digits:
        return True, text, None
    if text and not text.isascii() and text.isdigit() and len(text) == digits:
        return False, None, "non_ascii_digits"
    return False, None, None


def time_value(t, form):
    if form == "int":
        return t
    if form == "float":
        return float(t)
    if form == "float.5":
        return t + 0.5
    if form == "naive_us":
        return EPOCH + dt.timedelta(seconds=t, microseconds=700000)
    if form == "naive":
        return EPOCH + dt.timedelta(seconds=t)
    if form == "aware+0530":
        return (EPOCH_UTC + dt.timedelta(seconds=t)).astimezone(dt.timezone(dt.timedelta(hours=5, minutes=30)))
    raise HarnessError(f"unknown time form {form}")


def observe(obj, code, tv, window, skew, last, entry="match"):
    """run the real match() -- or the TOTP.verify() wrapper around it (entry = 'verify') -- -> (class, detail...)"""
    from passlib import exc

    try:
        if entry == "match":
            m = obj.match(code, tv, window=window, skew=skew, last_counter=last)
        else:
            m = type(obj).verify(code, obj, time=tv, window=window, skew=skew, last_counter=last)
    except exc.TokenError as e:
        if type(e) is exc.MalformedTokenError:
            return (R.MALFORMED,)
        if type(e) is exc.UsedTokenError:
            return (R.USED, e.expire_time)
        if type(e) is exc.InvalidTokenError:
            return (R.INVALID,)
        return (f"raises:{type(e).__name__}",)
    except Exception as e:  # noqa: BLE001
        return (f"raises:{type(e).__name__}", repr(e))
    try:
        extra = (m.time, m.cache_seconds, tuple(m), bool(m))
        return (R.MATCH, m.counter, m.expected_counter, m.skipped, m.expire_time, m.cache_time) + extra
    except Exception as e:  # noqa: BLE001
        return (f"raises:{type(e).__name__}", "reading TotpMatch fields: " + repr(e))


def position(want, code_text, inv, t, window, skew, last, period):
    """where the deciding counter sits relative to the window edges and last_counter (for keys / classes)"""
    L = -1 if last is None else last
    cl = t + skew
    wlo = max(R.floordiv(cl - window, period), 0)
    hi = R.floordiv(cl + window, period)
    S = inv.get(code_text, ()) if code_text is not None else ()
    if want[0] == R.MATCH:
        m = want[1]
        edge = "lo=hi" if wlo == hi else "lo" if m == wlo else "hi" if m == hi else "mid"
        lrel = "noL" if L < 0 else "L+1" if m == L + 1 else "gtL+1" if L >= wlo else "L<lo"
        dup = ":also_later" if any(m < c <= hi for c in S) else ""
        dup += ":also_before_L" if any(wlo <= c < L for c in S) else ""
        return f"{edge}:{lrel}{dup}"
    if want[0] == R.USED:
        edge = "L=hi" if L == hi else "L=wlo" if L == wlo else "L_mid" if L > wlo else "L>wlo"
        return edge + (":also_later" if any(L < c <= hi for c in S) else "")
    if want[0] == R.INVALID:
        if hi < max(L, wlo):
            return "empty_range:L>hi" if L > hi and hi >= 0 else "empty_range"
        if not S:
            return "no_counter_has_code"
        if any(wlo <= c < L and c <= hi for c in S):
            return "counter_before_L"
        if R.floordiv(cl - window, period) - 1 in S:
            return "counter=lo-1"
        if hi + 1 in S:
            return "counter=hi+1"
        return "counter_far"
    return "-"


# ---------------------------------------------------------------------------
# single-case evaluator (E1), also used by replay
# ---------------------------------------------------------------------------
#: [cases seen, stride]: the verify() comparison is made on every case in quick and in replays, on every 4th
#: case of the (8x larger) thorough product; the history search compares on every transition in both tiers
_VFY = [-1, 1]


#: PROCESS time zones (TZ + tzset) under which the date-time forms are driven again: a date-time without a zone is
#: documented to be taken as UTC whatever the local zone of the process is, an aware one is an absolute instant
PROCESS_ZONES = ("EST5EDT,M3.2.0,M11.1.0", "JST-9", "IST-5:30", "NZST-12NZDT,M9.5.0,M4.1.0/3")


def eval_match(case, obj=None, codes=None, inv=None):
    ptz = case.get("ptz")
    if ptz:
        import os
        import time as _time

        old = os.environ.get("TZ")
        os.environ["TZ"] = ptz
        _time.tzset()
        try:
            found, info = eval_match({k: v for k, v in case.items() if k != "ptz"}, obj, codes, inv)
        finally:
            if old is None:
                os.environ.pop("TZ", None)
            else:
                os.environ["TZ"] = old
            _time.tzset()
        return [(k + ":process_tz", f"[process TZ={ptz}] {d}") for k, d in found], info
    fam, key, alg, digits, period = (case[k] for k in ("fam", "key", "alg", "digits", "period"))
    window, skew, last, t, code = (case[k] for k in ("window", "skew", "last", "t", "code"))
    tform = case.get("tform", "int")
    label = case.get("label", "code")
    if obj is None:
        obj = family_cls(fam)(key, format="raw", alg=alg, digits=digits, period=period)
    if codes is None:
        codes = code_table(fam, key, alg, digits, case["top"] + 3)
        inv = collections.defaultdict(list)
        for c, txt in enumerate(codes):
            inv[txt].append(c)
    ok, text, oddity = normalise(code, digits)
    want = R.accept(text, ok, codes.__getitem__, t, window, skew, last, period)
    got = observe(obj, code, time_value(t, tform), window, skew, last)
    pos = label if want[0] == R.MALFORMED else position(want, text, inv, t, window, skew, last, period)
    info = (want, pos, got)
    # the documented convenience entry point TOTP.verify(token, source, **match options) must answer like match()
    _VFY[0] += 1
    got_v = got if (_VFY[0] % _VFY[1]) else observe(obj, code, time_value(t, tform), window, skew, last, entry="verify")
    if got_v != got:
        return [(f"C14|verify|{fam}:differs_from_match:match={got[0]}:verify={got_v[0]}",
                 f"{fam} period={period} window={window} skew={skew} last_counter={last} time={t} ({tform}) code={code!r}: "
                 f"match() {got!r} but TOTP.verify(code, obj, ...) {got_v!r}")], info
    if oddity == "non_ascii_digits":
        # neither the statement nor the docs say whether digits of another script are 'malformed' or merely
        # 'invalid'; both refusals are admitted, anything else is not
        if got[0] in (R.MALFORMED, R.INVALID):
            return [], info
        return [(f"C14|normalize_token|non_ascii_digits:got={got[0]}", f"match({code!r}) -> {got!r}; a token of non-ASCII digits must be refused")], info
    if oddity == "negative_int":
        if got[0] == R.MALFORMED:
            return [], info
        return [(f"C14|normalize_token|negative_int:got={got[0]}",
                 f"match({code!r}, digits={digits}) -> {got[0]}; a negative integer is not a code of {digits} digits and must be reported as malformed")], info
    desc = (f"{fam} period={period} window={window} skew={skew} last_counter={last} time={t} ({tform}) code={code!r} [{label}]: "
            f"model {want!r}, match() {got!r}")
    if got[0] != want[0]:
        return [(f"C14|match|{fam}:want={want[0]}:{pos}:got={got[0]}", desc)], info
    out = []
    if want[0] == R.USED:
        if got[1] != want[1]:
            out.append(("C14|UsedTokenError|expire_time", desc))
    elif want[0] == R.MATCH:
        if got[1] != want[1]:
            rel = "later" if got[1] > want[1] else "earlier"
            return [(f"C14|match|{fam}:want=Match:{pos}:got=Match_{rel}_counter", desc)], info
        names = ("expected_counter", "skipped", "expire_time", "cache_time")
        for i, name in enumerate(names, 2):
            if got[i] != want[i] or type(got[i]) is not int:
                out.append((f"C14|TotpMatch|{name}", desc))
        if got[6] != t or type(got[6]) is not int:
            out.append((f"C14|TotpMatch|time:{tform}", desc + f" .time={got[6]!r}"))
        if got[7] != period + window:
            out.append(("C14|TotpMatch|cache_seconds", desc + f" .cache_seconds={got[7]!r}"))
        if got[8] != (want[1], t):
            out.append(("C14|TotpMatch|as_tuple", desc + f" tuple={got[8]!r}"))
        if got[9] is not True:
            out.append(("C14|TotpMatch|bool", desc))
    return out, info


# ---------------------------------------------------------------------------
# E2: histories
# ---------------------------------------------------------------------------
def history_alphabet(cfg):
    fam, key, alg, digits = cfg["fam"], cfg["key"], cfg["alg"], cfg["digits"]
    codes = code_table(fam, key, alg, digits, cfg["top"] + 2)
    # hmac: the code of every counter (an accidental collision only repeats an event; never deduplicated, so the
    # seed cannot change the number of cases); mod3: the three codes there are
    alpha = [codes[c] for c in range(cfg["top"] + 1)] if fam == "hmac" else codes[:3]
    alpha.append(unassigned_code(codes, digits))
    alpha.append("12")  # malformed
    return codes, alpha


def step(obj, cfg, codes, state, event):
    """one application step on the real match(); -> (violations, new_state, outcome class)"""
    L, accepted = state
    t, code = event
    period, window, skew, digits = cfg["period"], cfg["window"], cfg["skew"], cfg["digits"]
    ok, text, _ = normalise(code, digits)
    want = R.accept(text, ok, codes.__getitem__, t, window, skew, L, period)
    got = observe(obj, code, t, window, skew, L)
    out = []
    fam = cfg["fam"]
    got_v = observe(obj, code, t, window, skew, L, entry="verify")
    if got_v != got:
        out.append((f"C14|history|{fam}:verify_differs_from_match", f"state last_counter={L} event time={t} code={code!r}: match() {got!r}, TOTP.verify() {got_v!r}"))
    if got[:2] != want[:2]:
        out.append((f"C14|history|{fam}:model={want[0]}:impl={got[0] if got[0] != want[0] else 'other_counter'}",
                    f"state last_counter={L} accepted={list(accepted)} event time={t} code={code!r}: model {want!r}, match() {got!r}"))
    new = state
    if got[0] == R.MATCH:
        c = got[1]
        if c in accepted:
            out.append((f"C14|history|{fam}:counter_accepted_twice",
                        f"counter {c} (code {code!r}) accepted again at time {t}; accepted so far {list(accepted)}, last_counter={L}"))
        elif accepted and c <= accepted[-1]:
            out.append((f"C14|history|{fam}:accepted_counter_not_increasing",
                        f"counter {c} accepted at time {t} after {list(accepted)}"))
        new = (c, accepted + (c,))
    return out, new, got[0]


def state_invariant(state):
    L, accepted = state
    if not accepted:
        return L is None
    return L == accepted[-1] and all(a < b for a, b in zip(accepted, accepted[1:]))


def explore(task):
    cfg = task
    acc = Acc()
    obj = family_cls(cfg["fam"])(cfg["key"], format="raw", alg=cfg["alg"], digits=cfg["digits"], period=cfg["period"])
    codes, alpha = history_alphabet(cfg)
    events = [(t, code) for t in cfg["times"] for code in alpha]
    init = (None, ())
    parent = {init: None}
    queue = collections.deque([init])
    transitions = 0
    depth = {init: 0}
    maxdepth = 0
    base = {k: cfg[k] for k in ("fam", "key", "alg", "digits", "period", "window", "skew", "top")}

    def trace_to(state):
        tr = []
        while parent[state] is not None:
            state, ev = parent[state]
            tr.append(list(ev))
        return tr[::-1]

    while queue:
        s = queue.popleft()
        if not state_invariant(s):
            acc.violation(f"C14|history|{cfg['fam']}:state_invariant", f"reachable state {s!r} breaks the invariant",
                          dict(base, kind="history", trace=trace_to(s)))
            continue
        for ev in events:
            transitions += 1
            found, ns, oc = step(obj, cfg, codes, s, ev)
            acc.outcome(f"history:{oc}")
            if found:
                case = dict(base, kind="history", trace=trace_to(s) + [list(ev)])
                for k, d in found:
                    acc.violation(k, d, case)
                continue  # do not expand beyond a violating transition
            if ns not in parent:
                parent[ns] = (s, ev)
                depth[ns] = depth[s] + 1
                maxdepth = max(maxdepth, depth[ns])
                queue.append(ns)
                if len(parent) > task["state_cap"]:
                    raise HarnessError(f"state cap exceeded in {core.short(base)}")
    acc.ev(transitions)
    acc.count("states", len(parent))
    acc.count("transitions", transitions)
    acc.count("max_depth_%s_p%d_w%d_s%d" % (cfg["fam"], cfg["period"], cfg["window"], cfg["skew"]), maxdepth)
    for s in parent:
        acc.cls("state", cfg["fam"], cfg["period"], cfg["window"], cfg["skew"], s[0], sum(1 << c for c in s[1]))
    acc.axis("history_config", f"{cfg['fam']}:p{cfg['period']}:w{cfg['window']}:s{cfg['skew']}")
    deepest = max(parent, key=lambda s: (depth[s], s[1]))
    acc.sample(dict(base, kind="history", trace=trace_to(deepest), reaches_state=list(deepest)))
    return acc


def eval_history(case):
    cfg = dict(case)
    obj = family_cls(cfg["fam"])(cfg["key"], format="raw", alg=cfg["alg"], digits=cfg["digits"], period=cfg["period"])
    codes, _ = history_alphabet(cfg)
    state = (None, ())
    out = []
    for ev in case["trace"]:
        found, state, _ = step(obj, cfg, codes, state, (ev[0], ev[1]))
        out.extend(found)
        if not state_invariant(state):
            out.append((f"C14|history|{cfg['fam']}:state_invariant", f"state {state!r}"))
    return out


def eval_rekey(case):
    """one live object whose key is replaced through the public setter after it has already generated / matched
    (and memoised whatever it memoises): from then on codes are compared with the NEW key's counters only"""
    from passlib import exc

    keys, alg, digits, period, window = case["keys"], case["alg"], case["digits"], case["period"], case["window"]
    t = case["t"]
    out = []
    try:
        obj = family_cls("hmac")(keys[0], format="raw", alg=alg, digits=digits, period=period)
        c = R.floordiv(t, period)
        old_code, new_code = R.hotp(keys[0], c, digits, alg), R.hotp(keys[1], c, digits, alg)
        for pre in case["pre"]:
            if pre == "generate":
                obj.generate(t)
            elif pre == "match":
                obj.match(old_code, t, window=window)
            elif pre == "mismatch":
                try:
                    obj.match("0" * digits if old_code != "0" * digits else "1" * digits, t, window=0)
                except exc.TokenError:
                    pass
        if case.get("copy"):
            # a COPY of the live object gets the new key: from then on two objects, two keys -- whichever generates first
            import copy as _copy

            dup = (_copy.copy if case["copy"] == "copy" else _copy.deepcopy)(obj)
            dup.key = keys[1]
            pairs = [("original", obj, keys[0]), ("copy", dup, keys[1])]
            if case.get("order") == "copy_first":
                pairs.reverse()
            for who, o, k in pairs:
                got = o.generate(t).token
                want = R.hotp(k, c, digits, alg)
                if got != want:
                    out.append((f"C14|rekey|{case['copy']}:{who}:wrong_code", f"after {case['pre']}, dup = {case['copy']}(obj), dup.key = <new key> ({case.get('order')}): the {who} generates {got!r} at counter {c}, its own key gives {want!r}"))
                if o.key != k:
                    out.append((f"C14|rekey|{case['copy']}:{who}:wrong_key", f"the {who} reports another key"))
            return out
        obj.key = keys[1]
        codes = [R.hotp(keys[1], k, digits, alg) for k in range(max(0, c - 3), c + 4)]
        for label, code, expect_match in (("new_key_code", new_code, True), ("old_key_code", old_code, old_code in codes)):
            try:
                m = obj.match(code, t, window=window)
                got = ("match", m.counter)
            except exc.TokenError as e:
                got = (type(e).__name__,)
            if expect_match and got[0] != "match":
                out.append((f"C14|rekey|{label}:rejected", f"after {case['pre']} and 'obj.key = <new key>': match({code!r}) [the {label.replace('_', ' ')} for counter {c}] -> {got!r}"))
            elif not expect_match and got[0] == "match":
                out.append((f"C14|rekey|{label}:accepted", f"after {case['pre']} and 'obj.key = <new key>': match({code!r}) [a code of the REPLACED key] -> {got!r}"))
    except Exception as e:  # noqa: BLE001
        out.append((f"C14|rekey|raises:{type(e).__name__}", f"{case['pre']}: raised {e!r}"))
    return out


def replay(case):
    bad = R.self_check()
    if bad:
        raise HarnessError(f"totp reference fails its own vectors: {bad}")
    if case["kind"] == "history":
        return eval_history(case)
    if case["kind"] == "rekey":
        return eval_rekey(case)
    return eval_match(case)[0]


# ---------------------------------------------------------------------------
# E1 shard worker
# ---------------------------------------------------------------------------
def malformed_codes(digits, good):
    d = digits
    return [
        ("empty", ""), ("blank", " "), ("dash_only", "-"), ("short", "1" * (d - 1)), ("long", "1" * (d + 1)),
        ("letter_last", "1" * (d - 1) + "a"), ("letters", "a" * d), ("plus_sign", "+" + "1" * (d - 1)),
        ("dot", "1" * (d - 1) + "."), ("short_bytes", b"2" * (d - 1)), ("long_int", 10**d),
        ("short_decorated", "1 1-1"), ("valid_plus_digit", good + "0"), ("valid_minus_digit", good[1:]),
        ("valid_twice", good + good),
        # bytes that are not text at all: still "not a code of the right length", whatever their length
        ("undecodable_first", b"\xff" + good[1:].encode()), ("undecodable_last", good[:-1].encode() + b"\xff"),
        ("undecodable_only", b"\xff"), ("undecodable_extra", good.encode() + b"\xc3"),
    ]


def odd_codes(digits, good):
    fw = "".join(chr(0xFF10 + int(ch)) for ch in good)
    return [("negative_int", -int(good) - 1), ("negative_small", -5), ("fullwidth_digits", fw),
            ("superscript_digits", "²" * digits), ("arabic_indic_digits", "".join(chr(0x660 + int(ch)) for ch in good))]


def work(task):
    _VFY[1] = 1 if task.get("quick", True) else 4
    if task["part"] == "history":
        return explore(task)
    if task["part"] == "rekey":
        import itertools

        acc = Acc()
        keys = [filler(task["seed"], 20, b"rk0"), filler(task["seed"], 20, b"rk1")]
        for alg in ("sha1", "sha256", "sha512"):
            for digits, period, window in ((6, 30, 30), (8, 1, 0), (6, 3, 5)):
                for n in range(0, 3):
                    for pre in itertools.product(("generate", "match", "mismatch"), repeat=n):
                        for t in (0, 59, 1111111109):
                            for cp, order in ((None, None), ("copy", "orig_first"), ("copy", "copy_first"), ("deepcopy", "orig_first")):
                                case = {"kind": "rekey", "keys": keys, "alg": alg, "digits": digits, "period": period, "window": window, "pre": list(pre), "t": t}
                                if cp:
                                    case.update(copy=cp, order=order)
                                acc.ev()
                                acc.cls("rekey", alg, digits, period, window, "/".join(pre), t, cp, order)
                                found = eval_rekey(case)
                                for k, d in found:
                                    acc.violation(k, d, case)
                                acc.outcome("violation" if found else "ok:rekey")
        acc.axis("part", "rekey")
        return acc
    acc = Acc()
    fam, key, alg, digits, period, window, skew = (task[k] for k in ("fam", "key", "alg", "digits", "period", "window", "skew"))
    part = task["part"]
    T = task["T"]
    obj = family_cls(fam)(key, format="raw", alg=alg, digits=digits, period=period)
    top = max(R.floordiv(T + skew + window, period), T // period, 0) + 2
    codes = code_table(fam, key, alg, digits, top + 3)
    inv = collections.defaultdict(list)
    for c, txt in enumerate(codes):
        inv[txt].append(c)
    distinct = [codes[c] for c in range(top + 1)] if fam == "hmac" else codes[:3]
    free = unassigned_code(codes, digits)
    base = {"kind": "match", "fam": fam, "key": key, "alg": alg, "digits": digits, "period": period, "window": window, "skew": skew, "top": top}

    def do(last, t, code, label, tform="int", ptz=None):
        case = dict(base, last=last, t=t, code=code, label=label, tform=tform)
        if ptz:
            case["ptz"] = ptz
            tform = f"{tform}@{ptz.split(',')[0]}"
        acc.ev()
        found, (want, pos, got) = eval_match(case, obj, codes, inv)
        for k, d in found:
            acc.violation(k, d, case)
        form = label if want[0] == R.MALFORMED or part != "product" else "text"
        acc.cls(fam, period, window, skew, (t + skew) % period, want[0], pos, form, tform)
        acc.outcome(f"{fam}:{want[0]}:{pos}" if not found else "violation")
        return case, want

    if part == "product":
        all_lasts = list(range(-1, top + 1))
        near = task.get("near")  # quick tier: counters / last_counter values near the window, plus the two extremes
        mal_n = len(malformed_codes(digits, codes[0]))
        for t in range(T + 1):
            good = codes[t // period]
            wlo = R.floordiv(t + skew - window, period)
            hi = R.floordiv(t + skew + window, period)
            if near is None:
                lasts = [None] + all_lasts
                cnts = range(top + 1)
            else:
                lasts = [None] + [x for x in all_lasts if x in (-1, 0, top) or wlo - near <= x <= hi + near]
                cnts = None
            mal = malformed_codes(digits, good)
            for last in lasts:
                if cnts is None:
                    L = -1 if last is None else last
                    sel = [c for c in range(top + 1) if c in (0, top) or wlo - near - 1 <= c <= hi + near + 1 or L - 1 <= c <= L + 1]
                else:
                    sel = cnts
                if fam == "hmac":
                    subs = [("code", codes[c]) for c in sel]
                else:
                    subs = [("code", c) for c in distinct]
                for label, code in subs + [("unassigned", free)] + mal:
                    case, want = do(last, t, code, label)
                    if t == 17 and last == 3 and want[0] in (R.MATCH, R.USED):
                        acc.sample(case)
                acc.axis("last_counter", last)
        assert mal_n == len(mal)
    elif part == "forms":
        for t in range(T + 1):
            e = t // period
            good = codes[e]
            for last in (None, -1, e - 1, e):
                for c in distinct:
                    half = len(c) // 2
                    for label, code in (("int", int(c)), ("bytes", c.encode()), ("blanks", " " + c[:half] + " " + c[half:] + "\n"),
                                        ("dashes", c[:half] + "-" + c[half:]), ("tab_bytes", c[:2].encode() + b"\t" + c[2:].encode()),
                                        # white space beyond ASCII (what a grouped code pasted from a phone carries)
                                        ("nbsp", c[:half] + "\u00a0" + c[half:]), ("thin_ideographic", "\u2009" + c + "\u3000"),
                                        ("narrow_nbsp_fs", c[:1] + "\u202f" + c[1:-1] + "\x1c" + c[-1:])):
                        do(last, t, code, label)
                for label, code in odd_codes(digits, good):
                    do(last, t, code, label)
            for tform in ("float", "float.5", "naive_us", "aware+0530"):
                for c in (good, codes[e + 1], free):
                    case, want = do(e - 1 if t % 2 else None, t, c, "code", tform)
                    if t == 29 and tform == "aware+0530":
                        acc.sample(case)
            for ptz in PROCESS_ZONES:
                for tform in ("naive", "naive_us", "aware+0530"):
                    for c in (good, codes[e + 1], free):
                        do(e - 1 if t % 2 else None, t, c, "code", tform, ptz)
    else:
        raise HarnessError(f"unknown part {part}")
    acc.axis("family", fam)
    acc.axis("period", period)
    acc.axis("window", window)
    acc.axis("skew", skew)
    acc.axis("config", f"{len(key)}B/{alg}/{digits}")
    acc.count(f"{part}_evaluations", acc.evaluations)
    return acc


def run(ctx):
    bad = R.self_check()
    if bad:
        raise HarnessError(f"totp reference fails its own vectors: {bad}")
    seed = ctx.seed
    small = tuple(range(-3, 4))
    if ctx.quick:
        configs = [(20, "sha1", 6)]
        T = 30
        axes = {p: ((0, 1, 2, 3, 5, 7), small) for p in (1, 2, 3, 5)}
    else:
        configs = [(20, "sha1", 6), (10, "sha256", 8), (64, "sha512", 10)]
        T = 40
        # windows / skews beyond a few periods add no new alignment; the wide ones are crossed with period 30
        axes = {p: ((0, 1, 2, 3, 5, 7, 15), small + (-8, 9)) for p in (1, 2, 3, 5, 7)}
        axes[30] = ((0, 1, 2, 3, 5, 7, 15, 29, 30, 31, 45, 59, 60, 61), small + (-8, 9, -30, 31, -45))
    tasks = []
    for fam in ("hmac", "mod3"):
        for n, alg, digits in configs if fam == "hmac" else configs[:2]:
            key = filler(seed, n, b"key")
            for period, (windows, skews) in axes.items():
                for window in windows:
                    for skew in skews:
                        for part in ("product", "forms"):
                            tasks.append({"part": part, "fam": fam, "key": key, "alg": alg, "digits": digits, "period": period,
                                          "window": window, "skew": skew, "T": T if period < 30 else max(T, 100),
                                          "near": 2 if ctx.quick else None, "quick": ctx.quick})
    # heavy shards first (small periods have the most counters)
    def cost(t):
        top = max(t["T"] + t["skew"] + t["window"], t["T"]) // t["period"] + 2
        return -(top * top * (2 * t["window"] // t["period"] + 3)) * (1 if t["part"] == "product" else 0.1)

    tasks.sort(key=cost)
    # ---- E2 configurations: (period, window, skew, last time)
    if ctx.quick:
        hist = [(1, 1, 0, 7), (2, 2, 0, 15), (2, 3, -1, 14), (3, 2, 1, 22), (3, 0, 0, 26), (2, 5, 0, 11), (5, 7, -3, 40)]
    else:
        hist = [(1, 1, 0, 10), (1, 0, 0, 12), (2, 2, 0, 21), (2, 3, -1, 20), (3, 2, 1, 31), (3, 0, 0, 38), (2, 5, 0, 17),
                (5, 7, -3, 55), (30, 30, 0, 330), (30, 45, -10, 320), (7, 3, 2, 72)]
    htasks = []
    for fam in ("hmac", "mod3"):
        for period, window, skew, tmax in hist:
            top = R.floordiv(tmax + skew + window, period)
            stride = 1 if period < 30 else 7
            htasks.append({"part": "history", "fam": fam, "key": filler(seed, 20, b"hist"), "alg": "sha1", "digits": 6,
                           "period": period, "window": window, "skew": skew, "top": top,
                           "times": list(range(0, tmax + 1, stride)), "state_cap": 2 ** (top + 1) + 2, "quick": ctx.quick})
    ctx.log(f"{len(tasks)} product shards, {len(htasks)} history explorations")
    htasks.append({"part": "rekey", "seed": seed, "quick": ctx.quick})
    hacc = core.pmap(work, htasks + tasks)
    states = hacc.counters.pop("states", 0)
    transitions = hacc.counters.pop("transitions", 0)
    ctx.merge(hacc)
    ctx.cov["states"] = states
    ctx.cov["transitions"] = transitions
    ctx.cov["traces_validated_against_impl"] = transitions
    ctx.cov["history_explorations"] = len([t for t in htasks if t["part"] == "history"])
    ctx.cov["product_match_calls"] = hacc.counters.get("product_evaluations", 0) + hacc.counters.get("forms_evaluations", 0)
    ctx.cov["explanation"] = (
        "states/transitions belong to the E2 history exploration: every transition is one real TOTP.match() call whose "
        "result was compared with the acceptance model and with the strictly-increasing invariant, so "
        "traces_validated_against_impl = transitions; evaluations additionally counts the E1 product match() calls")
    ctx.assume("token digits of non-ASCII scripts may be refused as malformed or as invalid (statement and docs are silent)")
    ctx.assume("the submitted-code alphabet is the code of every counter the window can reach plus one unassigned and the malformed codes; "
               "HMAC code values themselves are C13's subject")
