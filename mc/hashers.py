"""Catalogue of the hashers under test + the shared alphabets of DESIGN.md section 3.

Everything here is derived from the hashers' *public metadata* (setting_kwds, min/max rounds,
salt sizes / alphabet, ident_values, truncate_size ...) plus the documented equivalence /
admissibility table of DESIGN Appendix A.1.  Nothing is sampled: every function returns an
explicit, ordered, finite list.
"""
from __future__ import annotations

import functools
import hashlib
import warnings

warnings.filterwarnings("ignore")

DISABLED = ("unix_disabled", "django_disabled")
PLAINTEXT = ("plaintext", "ldap_plaintext", "roundup_plaintext")
#: formats that need text (UTF-16 / charset conversion / SASLprep): bytes must be valid UTF-8
TEXT_ONLY = ("nthash", "bsd_nthash", "msdcc", "msdcc2", "mssql2000", "mssql2005", "oracle10", "lmhash", "scram",
             "plaintext", "ldap_plaintext", "roundup_plaintext", "htdigest", "cisco_type7")
DES_FAMILY = ("des_crypt", "ldap_des_crypt", "django_des_crypt", "crypt16", "bigcrypt", "bsdi_crypt", "ldap_bsdi_crypt")
CASE_FOLDING = ("lmhash", "oracle10", "mssql2000")
SLOW = {"sun_md5_crypt": 32, "atlassian_pbkdf2_sha1": 8, "msdcc2": 3, "bcrypt": 1.5, "bcrypt_sha256": 1.5,
        "django_bcrypt": 1.5, "django_bcrypt_sha256": 1.5, "ldap_bcrypt": 1.5, "scrypt": 1.0}
NEEDS_USER = ("oracle10", "msdcc", "msdcc2", "postgres_md5", "htdigest")
CRYPT_COMPATIBLE_NUL = ("des_crypt", "bsdi_crypt", "md5_crypt", "apr_md5_crypt", "sha1_crypt", "sha256_crypt",
                        "sha512_crypt", "bcrypt", "sun_md5_crypt", "bigcrypt", "crypt16")


def filler(seed, n, tag=b""):
    out = b""
    i = 0
    while len(out) < n:
        out += hashlib.sha256(b"%d:%d:" % (seed, i) + tag).digest()
        i += 1
    return out[:n]


@functools.lru_cache(None)
def all_names():
    from passlib import registry

    return tuple(registry.list_crypt_handlers())


@functools.lru_cache(None)
def handler(name):
    import passlib.hash as PH

    return getattr(PH, name)


@functools.lru_cache(None)
def usable(name):
    """hasher can hash on this host (has some backend)"""
    H = handler(name)
    hb = getattr(H, "has_backend", None)
    if hb is None:
        return True
    try:
        return bool(hb())
    except Exception:  # noqa: BLE001
        return False


def usable_names():
    return tuple(n for n in all_names() if usable(n))


def base_name(name):
    """name of the algorithm family behind a wrapper"""
    for pre in ("ldap_", "django_"):
        if name.startswith(pre) and name[len(pre):] in all_names():
            return name[len(pre):]
    return name


def g(name, attr, default=None):
    return getattr(handler(name), attr, default)


def salt_alphabet(name):
    sc = g(name, "salt_chars")
    if sc is None:
        return None
    return sc


def is_raw_salt(name):
    sc = g(name, "salt_chars")
    return isinstance(sc, bytes)


def min_cost_kw(name):
    """settings that make hashing as cheap as the format allows"""
    kw = {}
    sk = g(name, "setting_kwds", ())
    if "rounds" in sk:
        mn = g(name, "min_rounds")
        kw["rounds"] = mn
        if name in ("bsdi_crypt", "ldap_bsdi_crypt"):
            kw["rounds"] = 1
    if name == "scrypt":
        kw.update(rounds=1, block_size=1, parallelism=1)
    return kw


def make_salt(name, size, seed, variant=0):
    """deterministic salt of `size` walking the alphabet (every symbol appears; position shifts with variant)"""
    sc = salt_alphabet(name)
    if sc is None:
        return None
    n = len(sc)
    if isinstance(sc, bytes):
        if n == 256:
            return bytes((seed * 7 + variant * 13 + i * 37 + 1) & 0xFF for i in range(size))
        return bytes(sc[(seed + variant + i * 7) % n] for i in range(size))
    s = "".join(sc[(seed * 3 + variant * 11 + i * 5) % n] for i in range(size))
    if base_name(name) in ("bcrypt", "bcrypt_sha256") and size == 22:
        # last char must have clear padding bits: one of the 4 legal values
        s = s[:-1] + ".Oeu"[(seed + variant) % 4]
    return s


def salt_sizes(name, quick=True):
    sk = g(name, "setting_kwds", ())
    if "salt" not in sk or salt_alphabet(name) is None:
        return []
    mn = g(name, "min_salt_size") or 0
    mx = g(name, "max_salt_size")
    df = g(name, "default_salt_size") or mn
    cap = 64 if not quick else 24
    hi = min(mx, cap) if mx is not None else cap
    sizes = {mn, min(mn + 1, hi), df, hi}
    if not quick:
        sizes |= set(range(mn, min(hi, 17) + 1))
    if "salt_size" not in sk:
        sizes = {s for s in sizes if mn <= s <= (mx if mx is not None else s)}
    return sorted(s for s in sizes if s >= mn and (mx is None or s <= mx))


def rounds_values(name, quick=True):
    sk = g(name, "setting_kwds", ())
    if "rounds" not in sk:
        return []
    mn, mx, cost = g(name, "min_rounds"), g(name, "max_rounds"), g(name, "rounds_cost")
    b = base_name(name)
    if name == "scrypt":
        return [1, 2, 3] if quick else [1, 2, 3, 4, 5]
    if cost == "log2":
        return [mn, mn + 1] if quick else [mn, mn + 1, mn + 2]
    if b in ("sha256_crypt", "sha512_crypt"):
        rs = [0, 1, 7, 8, 41, 42, 43, 83, 84, 85] if quick else range(86)
        return [1000 + r for r in rs] + [5000]
    if b == "sun_md5_crypt":
        return [0, 1] if quick else [0, 1, 2, 7]
    if b == "bsdi_crypt":
        return [1, 3, 5, 25] if quick else [1, 3, 5, 7, 25, 725]
    if b == "sha1_crypt":
        return [1, 2, 3, 10] if quick else [1, 2, 3, 4, 10, 40, 41]
    vals = [mn, mn + 1, mn + 2, 10]
    if not quick:
        vals += [42, 100]
    if b == "dlitz_pbkdf2_sha1":
        vals.append(400)
    return sorted(set(vals))


def ident_values(name):
    iv = g(name, "ident_values")
    if not iv or "ident" not in g(name, "setting_kwds", ()):
        return []
    H = handler(name)
    if type(H).__name__ == "PrefixWrapper":
        # using(ident=...) is passed through to the wrapped hasher: its own ident values apply
        iv = H.wrapped.ident_values
    out = []
    for i in iv:
        if "2x" in i:
            continue  # recognised but not supported for hashing (documented)
        out.append(i)
    return out


def extra_axes(name, quick=True):
    """other settings: list of dicts"""
    b = base_name(name)
    if name == "fshp":
        return [{"variant": v} for v in (0, 1, 2, 3)]
    if name == "bcrypt_sha256":
        return [{"version": 1, "ident": "2a"}, {"version": 1, "ident": "2b"}, {"version": 2}]
    if name == "scrypt":
        ax = [{"block_size": 1, "parallelism": 1}, {"block_size": 2, "parallelism": 1}, {"block_size": 1, "parallelism": 2}]
        if not quick:
            ax.append({"block_size": 8, "parallelism": 2})
        return ax
    if name == "scram":
        # (md4: hashlib lacks it under OpenSSL 3, the library then keys its own MD4 class through its own HMAC / PBKDF2)
        return [{"algs": "sha-1"}, {"algs": "sha-1,sha-256"}, {"algs": "sha-1,sha-256,sha-512"}, {"algs": "md5,sha-1"},
                {"algs": "md4,sha-1"}, {"algs": "sha-1,sha-224,sha-384"}]
    if name == "unix_disabled":
        return [{}, {"marker": "*"}, {"marker": "!"}, {"marker": "*LK*"}]
    if name == "cisco_type7":
        return [{"salt": s} for s in ((0, 1, 7, 15, 52) if quick else range(53))]
    return [{}]


def settings_grid(name, quick=True, seed=0):
    """explicit, ordered list of using() keyword dicts admissible for `name` (cheap costs only)"""
    out = []
    base = min_cost_kw(name)
    sk = g(name, "setting_kwds", ())
    rvals = rounds_values(name, quick) or [None]
    ssz = salt_sizes(name, quick) or [None]
    ids = ident_values(name) or [None]
    extras = extra_axes(name, quick)
    has_salt = "salt" in sk and salt_alphabet(name) is not None
    slow = name in SLOW
    # full product over (rounds x salt size x ident x extras) for cheap hashers,
    # star product (vary one axis at a time around the base point) for slow ones
    combos = []
    if slow:
        combos.append((rvals[0], ssz[0], ids[-1], extras[0]))
        for r in rvals[1:]:
            combos.append((r, ssz[0], ids[-1], extras[0]))
        for s in ssz[1:]:
            combos.append((rvals[0], s, ids[-1], extras[0]))
        for i in ids[:-1]:
            combos.append((rvals[0], ssz[0], i, extras[0]))
        for e in extras[1:]:
            combos.append((rvals[0], ssz[0], ids[-1], e))
    else:
        for e in extras:
            for i in ids:
                for r in rvals:
                    for s in ssz:
                        combos.append((r, s, i, e))
    for n, (r, s, i, e) in enumerate(combos):
        kw = dict(base)
        if r is not None:
            kw["rounds"] = r
        if i is not None:
            kw["ident"] = i
        kw.update(e)
        if has_salt and s is not None and "salt" not in e:
            kw["salt"] = make_salt(name, s, seed, n)
            if name == "scrypt" and i == "$7$":
                # the $7$ format stores the salt verbatim: ASCII without '$' only (documented)
                kw["salt"] = bytes(b"./0123456789ABCDEFGHIJKLMNOPQRSTUVWXYZabcdefghijklmnopqrstuvwxyz"[c & 63] for c in kw["salt"])
        out.append(kw)
    # plus one "all defaults but cheap" entry with a generated salt
    if has_salt:
        out.append(dict(base, **extras[0]))
        # ... and the two ends of the salt space: the last / the first symbol of the alphabet in EVERY position (the
        # all-ones and the all-zero salt value: 'zzzz' is bsdi_crypt's 0xFFFFFF)
        sc = salt_alphabet(name)
        size = g(name, "default_salt_size") or g(name, "max_salt_size") or g(name, "min_salt_size")
        if size and not (name == "scrypt"):
            for sym in (sc[-1:], sc[:1]):
                salt = sym * size
                if base_name(name) in ("bcrypt", "bcrypt_sha256") and size == 22:
                    salt = salt[:-1] + ("u" if sym == sc[-1:] else ".")
                out.append(dict(base, salt=salt, **extras[0]))
        # ... and the longest salt the format takes (up to 1024: the hash string then runs to ~1400 characters)
        mx = g(name, "max_salt_size")
        if mx is None and g(name, "min_salt_size") is not None:
            mx = 1024  # no upper limit declared
        if mx and 64 < mx <= 1024 and name != "scrypt":
            out.append(dict(base, salt=make_salt(name, mx, seed, 5), **extras[0]))
    return out


def ctx_grid(name, quick=True):
    ck = g(name, "context_kwds", ())
    if not ck:
        return [{}]
    users = ["user", "User", "a", "üser", "u" * 40] if not quick else ["user", "User", "üser"]
    out = []
    if name == "htdigest":
        for u in users[:3]:
            for realm in ("realm", "réalm"):
                for encoding in ("utf-8", "latin-1"):
                    out.append({"user": u, "realm": realm, "encoding": encoding})
        return out
    if "user" in ck:
        out = [{"user": u} for u in users]
        if name in ("cisco_pix", "cisco_asa"):
            out.insert(0, {})
            out.append({"user": ""})
            out.append({"user": "usr"})
        return out
    if "encoding" in ck:
        if name == "lmhash":
            return [{}, {"encoding": "cp437"}, {"encoding": "latin-1"}, {"encoding": "utf-8"}]
        return [{}, {"encoding": "utf-8"}, {"encoding": "latin-1"}]
    return [{}]


# ---------------------------------------------------------------------------
# passwords
# ---------------------------------------------------------------------------
QUICK_LENGTHS = (0, 1, 2, 7, 8, 9, 15, 16, 17, 55, 56, 63, 64, 65, 71, 72, 73, 95, 96, 97, 255, 256)


def lengths(quick=True):
    if quick:
        return list(QUICK_LENGTHS)
    return sorted(set(range(0, 131)) | {127, 128, 129, 255, 256, 1000, 4095, 4096})


def password_contents(L, seed=0):
    """[(label, value)] for one length class L (L = number of BYTES of the utf-8 / raw form)"""
    out = []
    if L == 0:
        return [("empty", "")]
    low = "".join(chr(97 + (seed + i) % 26) for i in range(L))
    out.append(("ascii_lower", low))
    mixed = "".join("aZ3 \tq!Mx9~"[(seed + i * 3) % 11] for i in range(L))
    mixed = mixed.strip() or ("x" * L)
    mixed = (mixed + "x" * L)[:L]
    out.append(("ascii_mixed", mixed))
    # walk through byte values 1..255 (raw bytes; non-UTF-8 in general)
    walk = bytes(((seed * 5 + i * 29) % 255) + 1 for i in range(L))
    out.append(("bytes_walk", walk))
    # multi-byte UTF-8 text of exactly L bytes where possible
    for width, ch in ((2, "é"), (3, "€"), (4, "\U0001f600")):
        if L >= width:
            k, rem = divmod(L, width)
            s = "a" * rem + ch * k  # ascii first so a multibyte char straddles the tail boundary
            out.append((f"utf8_{width}byte", s))
    hi = bytes(0x80 + ((seed + i * 7) % 0x7F) for i in range(L))
    out.append(("bytes_high", hi))
    return out


def to_bytes(p, encoding="utf-8"):
    return p if isinstance(p, bytes) else p.encode(encoding)


def is_utf8(b):
    try:
        b.decode("utf-8")
        return True
    except UnicodeDecodeError:
        return False


# ---------------------------------------------------------------------------
# admissibility + equivalence model (DESIGN Appendix A.1)
# ---------------------------------------------------------------------------
def admissible(name, secret, ctx=None, settings=None):
    """must hash() succeed for this secret?  (NUL and > 4096 are never generated for C01)"""
    ctx = ctx or {}
    b = base_name(name)
    raw = to_bytes(secret)
    if len(secret) > 4096:
        return False
    if b"\x00" in raw:
        return False
    if isinstance(secret, bytes) and not is_utf8(secret):
        if name in TEXT_ONLY or b in TEXT_ONLY:
            return False
        if b in ("cisco_pix", "cisco_asa"):
            return False
    if name == "lmhash":
        enc = ctx.get("encoding") or "cp437"
        try:
            s = secret if isinstance(secret, str) else secret.decode("utf-8")
            s.upper().encode(enc)
        except (UnicodeError, LookupError):
            return False
    if name in PLAINTEXT or name == "htdigest" or name == "cisco_type7":
        enc = ctx.get("encoding") or "utf-8"
        try:
            s = secret if isinstance(secret, str) else secret.decode(enc)
            s.encode(enc)
        except (UnicodeError, LookupError):
            return False
    if name == "htdigest":
        enc = ctx.get("encoding") or "utf-8"
        try:
            ctx.get("user", "").encode(enc)
            ctx.get("realm", "").encode(enc)
        except UnicodeError:
            return False
    if name == "ldap_plaintext":
        s = secret if isinstance(secret, str) else secret.decode("utf-8", "replace")
        if not s:
            return False
        import re

        if re.match(r"^\{[\w-]+\}", s):
            return False
    if name == "cisco_pix" and len(raw) > 16:
        return False
    if name == "cisco_asa" and len(raw) > 32:
        return False
    if name == "scram":
        from mc.hashers import saslprep_ok

        s = secret if isinstance(secret, str) else secret.decode("utf-8")
        if not saslprep_ok(s):
            return False
    if name == "cisco_type7":
        return True
    return True


def _des_key_bytes(raw):
    return bytes(c & 0x7F for c in raw)


def _strip0(bs):
    return bs.rstrip(b"\x00")


def equiv(name, p, q, ctx=None, settings=None):
    """True when the documentation allows q to verify against a hash of p (nothing is demanded then)."""
    ctx = ctx or {}
    settings = settings or {}
    b = base_name(name)
    pb, qb = to_bytes(p), to_bytes(q)
    if pb == qb:
        return True
    if b in ("des_crypt",):
        return _strip0(_des_key_bytes(pb[:8])) == _strip0(_des_key_bytes(qb[:8]))
    if name == "crypt16":
        P, Q = _des_key_bytes(pb[:16]), _des_key_bytes(qb[:16])
        return _strip0(P[:8]) == _strip0(Q[:8]) and _strip0(P[8:]) == _strip0(Q[8:])
    if name == "bigcrypt":
        P, Q = _des_key_bytes(pb), _des_key_bytes(qb)
        segs = lambda x: max(1, (len(x) + 7) // 8)  # noqa: E731
        if segs(P) != segs(Q):
            return False
        n = segs(P) * 8
        return P.ljust(n, b"\0") == Q.ljust(n, b"\0")
    if b == "bsdi_crypt":
        P, Q = _des_key_bytes(pb), _des_key_bytes(qb)
        n = max(1, (max(len(P), len(Q)) + 7) // 8) * 8
        # folding is done block by block; only zero padding of the final block is equivalent
        if (len(P) + 7) // 8 != (len(Q) + 7) // 8 and min(len(P), len(Q)) > 0:
            return P.ljust(n, b"\0") == Q.ljust(n, b"\0")
        return P.ljust(n, b"\0") == Q.ljust(n, b"\0")
    if b in ("bcrypt",):
        ident = str(settings.get("ident") or "")
        if ident.strip("$") == "2" or ident.endswith("$2$"):
            # first bcrypt revision: key is the password cycled WITHOUT terminator
            def cyc(x):
                return (x * (72 // len(x) + 1))[:72] if x else x

            return cyc(pb) == cyc(qb)
        return pb[:72] == qb[:72]
    if name == "lmhash":
        try:
            ps = p if isinstance(p, str) else p.decode("utf-8")
            qs = q if isinstance(q, str) else q.decode("utf-8")
        except UnicodeDecodeError:
            return True
        if not (ps.isascii() and qs.isascii()):
            return True  # case mapping of non-ASCII text under OEM code pages: nothing demanded
        return ps.upper()[:14] == qs.upper()[:14]
    if name in ("oracle10", "mssql2000"):
        try:
            ps = p if isinstance(p, str) else p.decode("utf-8")
            qs = q if isinstance(q, str) else q.decode("utf-8")
        except UnicodeDecodeError:
            return True
        return ps.upper() == qs.upper()
    if name == "mysql323":
        strip = lambda x: bytes(c for c in x if c not in (0x20, 0x09))  # noqa: E731
        return strip(pb) == strip(qb)
    if name == "scram":
        from mc.hashers import saslprep_safe

        try:
            ps = p if isinstance(p, str) else p.decode("utf-8")
            qs = q if isinstance(q, str) else q.decode("utf-8")
        except UnicodeDecodeError:
            return True
        a, c = saslprep_safe(ps), saslprep_safe(qs)
        if a is None or c is None:
            return True
        return a == c
    if name in ("cisco_pix", "cisco_asa"):
        return _strip0(pb) == _strip0(qb)
    return False


def near_misses(p, limits=()):
    """ordered list of (label, q) single-edit neighbours of p (never containing NUL)"""
    isb = isinstance(p, bytes)
    n = len(p)
    if n <= 40:
        pos = list(range(n))
    else:
        ps = {0, 1, 6, 7, 8, n - 2, n - 1}
        for lim in limits:
            ps |= {lim - 1, lim, lim + 1}
        ps |= {13, 14, 15, 16, 31, 32, 71, 72, 73}
        pos = sorted(i for i in ps if 0 <= i < n)
    out = []

    def put(label, q):
        if q != p and (b"\x00" not in q if isinstance(q, bytes) else "\x00" not in q):
            out.append((label, q))

    for i in pos:
        c = p[i] if isb else ord(p[i])
        for label, d in (("flip0", c ^ 1), ("flip7", c ^ 0x80)):
            if d == 0:
                continue
            if isb:
                put(f"{label}@{i}", p[:i] + bytes([d]) + p[i + 1 :])
            elif d < 0x110000 and not (0xD800 <= d <= 0xDFFF):
                put(f"{label}@{i}", p[:i] + chr(d) + p[i + 1 :])
        ch = bytes([c]) if isb else p[i]
        sw = ch.swapcase() if isb or len(ch.swapcase()) == 1 else ch
        if sw != ch:
            put(f"case@{i}", p[:i] + sw + p[i + 1 :])
        put(f"del@{i}", p[:i] + p[i + 1 :])
        ins = b"x" if isb else "x"
        put(f"ins@{i}", p[:i] + ins + p[i:])
    # blanks and control characters inserted at the start, in the middle and at the end (formats that ignore SOME
    # blanks -- mysql323: space and tab -- must not ignore the others); line feed first: it is the reduced set's pick
    for wsb in (b"\n", b"\t", b"\r", b"\x0b", b"\x0c", b"\x1f", b"\x7f", b"\xa0"):
        ws = wsb if isb else wsb.decode("latin-1")
        for where, i in (("start", 0), ("mid", n // 2), ("end", n)):
            put(f"ws{wsb[0]:02x}_{where}@{i}", p[:i] + ws + p[i:])
    if isb:
        # keyed constructions (HMAC: sha1_crypt, pbkdf2, scram ...) replace a key LONGER than the digest's block by its
        # digest; a password of exactly one block is used as it is, so its digest is just another (wrong) password
        import hashlib

        for alg, block in (("md5", 64), ("sha1", 64), ("sha256", 64), ("sha512", 128)):
            if n == block:
                put(f"digest_of_password:{alg}", hashlib.new(alg, p).digest())
    put("drop_last", p[:-1])
    put("append_x", p + (b"x" if isb else "x"))
    put("append_blank", p + (b" " if isb else " "))
    put("empty", b"" if isb else "")
    return out


def saslprep_safe(s):
    """reference SASLprep (mc.refs.saslprep); None when the text is prohibited"""
    from mc.refs.saslprep import saslprep

    try:
        return saslprep(s)
    except ValueError:
        return None


def saslprep_ok(s):
    return saslprep_safe(s) is not None
