"""E4 -- owned environment seams: scripted random source, fault points, clock / mtime seams."""
from __future__ import annotations

import contextlib

from mc.core import HarnessError


class ScriptedRng:
    """random.Random look-alike whose answers are chosen by the explorer.

    Every request (method, size of its answer range) is logged; the i-th request is answered with
    answers[i] (default 0).  An answer outside the requested range is a harness error.
    """

    def __init__(self, answers=()):
        self.answers = list(answers)
        self.log = []

    def _answer(self, kind, size):
        i = len(self.log)
        self.log.append((kind, size))
        a = self.answers[i] if i < len(self.answers) else 0
        if a == "max":
            a = size - 1
        if not (0 <= a < size):
            raise HarnessError(f"scripted answer {a} outside range {size} for request {i} ({kind})")
        return a

    # --- random.Random API used by the library ---------------------------------
    def getrandbits(self, k):
        return self._answer("getrandbits", 1 << k)

    def randrange(self, start, stop=None, step=1):
        if stop is None:
            start, stop = 0, start
        if step != 1:
            raise HarnessError("randrange with step unsupported by the scripted source")
        return start + self._answer("randrange", stop - start)

    def randint(self, a, b):
        return a + self._answer("randint", b - a + 1)

    def choice(self, seq):
        return seq[self._answer("choice", len(seq))]

    def randbytes(self, n):
        return self._answer("randbytes", 1 << (8 * n)).to_bytes(n, "little")

    def random(self):
        raise HarnessError("random() is not served by the scripted source")

    def sample(self, population, k):
        raise HarnessError("sample() is not served by the scripted source")

    def shuffle(self, x):
        raise HarnessError("shuffle() is not served by the scripted source")


class _Secrets:
    """stand-in for the `secrets` module as used by libpass._salt"""

    def __init__(self, rng):
        self._rng = rng

    def choice(self, seq):
        return self._rng.choice(seq)

    def randbelow(self, n):
        return self._rng.randrange(0, n)

    def token_bytes(self, n=32):
        return self._rng.randbytes(n)

    def randbits(self, k):
        return self._rng.getrandbits(k)


RNG_BINDINGS = (
    ("passlib.utils", "rng"),
    ("passlib.utils.handlers", "rng"),
    ("passlib.totp", "rng"),
    ("passlib.pwd", "rng"),
    ("passlib.handlers.django", "rng"),
)


@contextlib.contextmanager
def scripted_rng(rng):
    """install `rng` behind every binding of the library's process-wide random source"""
    import importlib

    undo = []
    try:
        for modname, attr in RNG_BINDINGS:
            mod = importlib.import_module(modname)
            undo.append((mod, attr, getattr(mod, attr)))
            setattr(mod, attr, rng)
        import passlib.pwd as P

        undo.append((P.SequenceGenerator, "rng", P.SequenceGenerator.rng))
        P.SequenceGenerator.rng = rng
        import libpass._salt as LS

        undo.append((LS, "secrets", LS.secrets))
        LS.secrets = _Secrets(rng)
        import libpass.hashers.sha_crypt as LSC

        if hasattr(LSC, "secrets"):
            undo.append((LSC, "secrets", LSC.secrets))
            LSC.secrets = _Secrets(rng)
        try:
            import bcrypt as BC  # libpass bcrypt hashers call bcrypt.gensalt() -> os.urandom: not owned
        except ImportError:
            BC = None
        yield rng
    finally:
        for obj, attr, val in reversed(undo):
            setattr(obj, attr, val)


class FailAt:
    """wrap a callable so that its k-th call (1-based) raises `exc`; counts calls"""

    def __init__(self, fn, k=None, exc=RuntimeError("injected fault")):
        self.fn = fn
        self.k = k
        self.exc = exc
        self.calls = 0

    def __call__(self, *a, **kw):
        self.calls += 1
        if self.k is not None and self.calls == self.k:
            raise self.exc
        return self.fn(*a, **kw)
