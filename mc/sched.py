"""E3 -- stateless thread-schedule explorer with iterative preemption bounding.

Real threading.Thread objects, one baton.  Schedule points are sys.monitoring
LINE (or INSTRUCTION) events inside an explicit set of code objects, plus every
acquire of a SchedLock.  Everything between two points is atomic because only
the baton holder runs.  `explore()` enumerates ALL schedules whose number of
preemptions (switching away from a thread that could have continued) is <= bound.
"""
from __future__ import annotations

import itertools
import sys
import threading
import types

from mc.core import HarnessError

MON = sys.monitoring
TOOL = 3  # a free tool id (0 debugger, 1 coverage, 2 profiler, 5 optimizer are conventional)
WATCHDOG_S = 300.0


class Abort(BaseException):
    """raised inside managed threads to unwind an aborted execution"""


def code_objects(objs):
    """all code objects (incl. nested) of the given functions / methods / classes / code objects"""
    out = []
    seen = set()

    def add_code(co):
        if id(co) in seen:
            return
        seen.add(id(co))
        out.append(co)
        for c in co.co_consts:
            if isinstance(c, types.CodeType):
                add_code(c)

    def add(o):
        if isinstance(o, types.CodeType):
            add_code(o)
        elif isinstance(o, (staticmethod, classmethod)):
            add(o.__func__)
        elif isinstance(o, property):
            for f in (o.fget, o.fset, o.fdel):
                if f is not None:
                    add(f)
        elif isinstance(o, types.MethodType):
            add(o.__func__)
        elif isinstance(o, types.FunctionType):
            add_code(o.__code__)
        elif isinstance(o, types.ModuleType):
            for v in vars(o).values():
                if getattr(v, "__module__", None) == o.__name__ and isinstance(v, (types.FunctionType, type)):
                    add(v)
        elif isinstance(o, type):
            for v in vars(o).values():
                if isinstance(v, (types.FunctionType, staticmethod, classmethod, property)):
                    add(v)
        elif hasattr(o, "__wrapped__"):
            add(o.__wrapped__)
        elif hasattr(o, "__func__"):
            add(o.__func__)
        elif hasattr(o, "__get__") and hasattr(o, "__dict__"):
            for v in vars(o).values():
                if isinstance(v, types.FunctionType):
                    add(v)

    for o in objs:
        add(o)
    return out


class SchedLock:
    """scheduler-aware re-entrant lock; outside a scheduled execution it is a plain RLock"""

    def __init__(self, sched_ref, name):
        self._ref = sched_ref
        self.name = name
        self._real = threading.RLock()
        self.owner = None
        self.count = 0

    def acquire(self, blocking=True, timeout=-1):
        s = self._ref[0]
        tid = s.tid() if s is not None else None
        if tid is None:
            return self._real.acquire(blocking, timeout)
        s.lock_acquire(tid, self)
        return True

    def release(self):
        s = self._ref[0]
        tid = s.tid() if s is not None else None
        if tid is None:
            return self._real.release()
        s.lock_release(tid, self)
        return None

    __enter__ = acquire

    def __exit__(self, *a):
        self.release()


class Execution:
    __slots__ = ("points", "choices", "results", "deadlock", "preemptions", "sig")

    def __init__(self):
        self.points = []  # multi-option decision points: (tid, where, n_enabled, running_enabled, chosen)
        self.choices = []
        self.results = None
        self.deadlock = None
        self.preemptions = 0
        self.sig = []


class Scheduler:
    def __init__(self, codes, level="line"):
        self.codes = code_objects(codes)
        self.level = level
        self.event = MON.events.LINE if level == "line" else MON.events.INSTRUCTION
        self.ref = [None]
        self.active = False
        self._installed = False
        self.total_points = 0

    # -- installation -----------------------------------------------------
    def install(self):
        if self._installed:
            return
        if MON.get_tool(TOOL) is None:
            MON.use_tool_id(TOOL, "mc-sched")
        MON.register_callback(TOOL, MON.events.LINE, self._on_line if self.level == "line" else None)
        MON.register_callback(TOOL, MON.events.INSTRUCTION, self._on_instr if self.level != "line" else None)
        for co in self.codes:
            MON.set_local_events(TOOL, co, self.event)
        self._installed = True
        self.ref[0] = self

    def uninstall(self):
        if not self._installed:
            return
        for co in self.codes:
            MON.set_local_events(TOOL, co, 0)
        MON.register_callback(TOOL, MON.events.LINE, None)
        MON.register_callback(TOOL, MON.events.INSTRUCTION, None)
        MON.free_tool_id(TOOL)
        self._installed = False
        self.ref[0] = None

    def make_lock(self, name):
        return SchedLock(self.ref, name)

    # -- callbacks ----------------------------------------------------------
    def tid(self):
        if not self.active:
            return None
        return self.by_ident.get(threading.get_ident())

    def _on_line(self, code, line):
        if not self.active:
            return
        t = self.by_ident.get(threading.get_ident())
        if t is None:
            return
        self.point(t, (code.co_name, line))

    def _on_instr(self, code, offset):
        if not self.active:
            return
        t = self.by_ident.get(threading.get_ident())
        if t is None:
            return
        self.point(t, (code.co_name, offset))

    # -- core ---------------------------------------------------------------
    def _enabled(self, running):
        ready = [i for i in range(self.n) if self.state[i] == "ready"]
        if running is not None and running in ready:
            ready.remove(running)
            return [running] + ready, True
        return ready, False

    def _choose(self, running, where, enabled, running_enabled):
        n = len(enabled)
        if n == 1:
            return enabled[0]
        x = self.x
        k = len(x.choices)
        if k < len(self.prefix):
            c = self.prefix[k]
            if c >= n:
                self._fail(f"replay divergence: choice {c} out of range {n} at point {k} {where}")
            if self.expect is not None and k < len(self.expect):
                if self.expect[k] != (running, where, n):
                    self._fail(f"replay divergence at point {k}: expected {self.expect[k]}, got {(running, where, n)}")
        else:
            c = 0
        x.choices.append(c)
        x.points.append((running, where, n, running_enabled, c))
        x.sig.append((running, where, n))
        if c and running_enabled:
            x.preemptions += 1
        return enabled[c]

    def _fail(self, msg):
        self.harness_error = msg
        self._abort_all()
        raise Abort()

    def _abort_all(self):
        self.abort = True
        for s in self.sems:
            s.release()
        self.done_event.set()

    def _switch_from(self, t, nxt):
        self.current = nxt
        self.sems[nxt].release()
        self.sems[t].acquire()
        if self.abort:
            raise Abort()

    def point(self, t, where):
        if self.abort:
            raise Abort()
        if t != self.current:  # cannot happen with one baton
            self._fail(f"thread {t} ran without the baton (current={self.current}) at {where}")
        self.total_points += 1
        self.npoints += 1
        if self.npoints > self.max_points:
            self._fail(f"more than {self.max_points} schedule points in one execution (livelock?)")
        enabled, re = self._enabled(t)
        nxt = self._choose(t, where, enabled, re)
        if nxt != t:
            self._switch_from(t, nxt)

    def lock_acquire(self, t, lock):
        self.point(t, ("lock", lock.name))
        while True:
            if lock.owner is None or lock.owner == t:
                lock.owner = t
                lock.count += 1
                return
            # blocked
            self.state[t] = ("blocked", lock)
            enabled, _ = self._enabled(None)
            if not enabled:
                self.x.deadlock = {i: (st if isinstance(st, str) else f"blocked:{st[1].name}") for i, st in enumerate(self.state)}
                self._abort_all()
                raise Abort()
            nxt = self._choose(t, ("blocked", lock.name), enabled, False)
            self._switch_from(t, nxt)

    def lock_release(self, t, lock):
        if lock.owner != t:
            raise RuntimeError("release of un-owned SchedLock")
        lock.count -= 1
        if lock.count == 0:
            lock.owner = None
            for i, st in enumerate(self.state):
                if isinstance(st, tuple) and st[1] is lock:
                    self.state[i] = "ready"

    def _thread_main(self, i, body):
        self.by_ident[threading.get_ident()] = i
        self.sems[i].acquire()
        if self.abort:
            return
        try:
            try:
                self.results[i] = ("ok", body())
            except Abort:
                raise
            except BaseException as e:  # noqa: BLE001 - the observation *is* the exception
                self.results[i] = ("exc", e)
        except Abort:
            self.results[i] = ("aborted", None)
            return
        # finished: hand the baton on
        self.state[i] = "done"
        if self.abort:
            return
        enabled, _ = self._enabled(None)
        if not enabled:
            if any(isinstance(st, tuple) for st in self.state):
                self.x.deadlock = {j: (st if isinstance(st, str) else f"blocked:{st[1].name}") for j, st in enumerate(self.state)}
                self._abort_all()
            else:
                self.done_event.set()
            return
        try:
            nxt = self._choose(i, ("exit", i), enabled, False)
        except Abort:
            return
        self.current = nxt
        self.sems[nxt].release()

    def run(self, bodies, prefix=(), expect=None, max_points=200000):
        """one complete execution under the given choice prefix (then choice 0 everywhere)"""
        self.install()
        self.n = len(bodies)
        self.prefix = list(prefix)
        self.expect = expect
        self.x = Execution()
        self.state = ["ready"] * self.n
        self.results = [None] * self.n
        self.sems = [threading.Semaphore(0) for _ in range(self.n)]
        self.by_ident = {}
        self.abort = False
        self.harness_error = None
        self.done_event = threading.Event()
        self.npoints = 0
        self.max_points = max_points
        self.current = None
        threads = [threading.Thread(target=self._thread_main, args=(i, b), daemon=True) for i, b in enumerate(bodies)]
        for th in threads:
            th.start()
        self.active = True
        try:
            enabled, _ = self._enabled(None)
            try:
                first = self._choose(None, ("start",), enabled, False)
            except Abort:
                first = None
            if first is not None:
                self.current = first
                self.sems[first].release()
                if not self.done_event.wait(WATCHDOG_S):
                    self.harness_error = f"watchdog: execution did not finish within {WATCHDOG_S}s (prefix={self.prefix})"
                    self._abort_all()
            for th in threads:
                th.join(5.0)
        finally:
            self.active = False
        if self.harness_error:
            raise HarnessError(self.harness_error)
        if any(th.is_alive() for th in threads):
            raise HarnessError("a managed thread did not terminate")
        x = self.x
        x.results = list(self.results)
        return x


def explore(sched, make_bodies, bound, check, prefix=(), expect=None, stats=None, max_exec=None):
    """DFS over all schedules with <= bound preemptions below `prefix`.

    make_bodies() -> list of callables on FRESH state (called once per execution)
    check(execution, ctxobj) is called for every complete execution.
    """
    stats = stats if stats is not None else {"executions": 0, "points": 0, "by_preemptions": {}, "capped": False}
    stack = [(list(prefix), expect)]
    while stack:
        pre, exp = stack.pop()
        if max_exec is not None and stats["executions"] >= max_exec:
            stats["capped"] = True
            break
        for attempt in range(3):
            bodies, cobj = make_bodies()
            try:
                x = sched.run(bodies, pre, exp)
                break
            except HarnessError as e:
                # a replayed prefix must reproduce its parent's points exactly.  A single retry is allowed (and
                # counted) before this becomes a harness error: it is never turned into a violation either way.
                if "replay divergence" not in str(e) or attempt == 2:
                    raise
                stats["divergence_retries"] = stats.get("divergence_retries", 0) + 1
        stats["executions"] += 1
        stats["points"] += len(x.points)
        stats["by_preemptions"][x.preemptions] = stats["by_preemptions"].get(x.preemptions, 0) + 1
        check(x, cobj)
        # alternatives at every later multi-option point
        cost = 0
        costs = []
        for (_r, _w, _n, re, c) in x.points:
            costs.append(cost)
            if c and re:
                cost += 1
        for i in range(len(x.points) - 1, len(pre) - 1, -1):
            _r, _w, n, re, _c = x.points[i]
            for alt in range(n - 1, 0, -1):
                if costs[i] + (1 if re else 0) > bound:
                    continue
                stack.append((x.choices[:i] + [alt], x.sig[: i + 1]))
    return stats


def first_level(sched, make_bodies, bound, check, stats):
    """run the root execution; return the list of (prefix, expect) subtrees below it"""
    bodies, cobj = make_bodies()
    x = sched.run(bodies, [], None)
    stats["executions"] += 1
    stats["points"] += len(x.points)
    stats["by_preemptions"][x.preemptions] = stats["by_preemptions"].get(x.preemptions, 0) + 1
    check(x, cobj)
    subs = []
    for i in range(len(x.points)):
        _r, _w, n, re, _c = x.points[i]
        for alt in range(1, n):
            if (1 if re else 0) > bound:
                continue
            # the root execution takes choice 0 everywhere: a first-level subtree is (number of zeros, alternative)
            subs.append((i, alt))
    return subs, x


def permutations_sequential(n):
    return list(itertools.permutations(range(n)))
