"""Reference model of CryptContext policy (DESIGN appendix A.2), written from docs/lib/passlib.context.rst.

Deliberately boring: plain dicts, no caching, no records.  The only things taken from the library are the
UNCONFIGURED hashers' documented metadata (setting_kwds, min_rounds, max_rounds, default_rounds, rounds_cost) and
their own identify / verify / needs_update (scheme flags) -- never anything from passlib.context.

    Policy(cfg)                 raises Invalid when the documentation says the configuration is an error
    .unspecified                reasons why the documentation does not decide validity (caller accepts both)
    .default(cat)  .deprecated(scheme, cat)  .window(scheme, cat)  .new_cost(scheme, cat)
    .identify(h)  .needs_update(h, cat)  .verify(p, h)  .vau(p, h, cat) -> "F" | "T" | "N"
"""
from __future__ import annotations

from fractions import Fraction

CONTEXT_OPTIONS = ("schemes", "default", "deprecated")
GLOBAL_OPTIONS = ("truncate_error", "vary_rounds")  # documented as settable for all schemes at once
ROUNDS_OPTIONS = ("min_rounds", "max_rounds", "default_rounds", "vary_rounds", "rounds")
FORBIDDEN = ("salt",)


class Invalid(Exception):
    """the documentation says this configuration must be refused; args = (kind, detail)"""

    def __init__(self, kind, detail=""):
        super().__init__(kind, detail)
        self.kind = kind


def parse_key(key):
    if not isinstance(key, str):
        raise Invalid("key_type")
    parts = key.split("__")
    if len(parts) > 3:
        raise Invalid("too_many_separators")
    if any(p == "" for p in parts):
        raise Invalid("empty_key_part")
    cat, scheme, opt = ([None, None] + parts)[-3:]
    return cat, (None if scheme == "context" else scheme), opt


def _int(v, what):
    if isinstance(v, bool) or not isinstance(v, (int, str)):
        raise Invalid("wrong_type", what)
    try:
        return int(v)
    except ValueError:
        raise Invalid("not_a_number", what) from None


def _vary(v):
    """-> int (absolute) or Fraction (share of the default)"""
    if isinstance(v, str):
        try:
            v = Fraction(v[:-1]) / 100 if v.endswith("%") else (Fraction(v) if "." in v else int(v))
        except ValueError:
            raise Invalid("not_a_number", "vary_rounds") from None
    elif isinstance(v, float):
        v = Fraction(str(v))
    elif isinstance(v, bool) or not isinstance(v, int):
        raise Invalid("wrong_type", "vary_rounds")
    if v < 0 or (isinstance(v, Fraction) and v > 1):
        raise Invalid("vary_rounds_range")
    return v


def _names(v, what):
    if isinstance(v, str):
        v = [x.strip() for x in v.split(",") if x.strip()]
    if not isinstance(v, (list, tuple)):
        raise Invalid("wrong_type", what)
    return list(v)


class Policy:
    def __init__(self, cfg):
        self.unspecified = []
        self.ctx = {}  # cat -> {default / deprecated: value}
        self.opts = {}  # scheme -> cat -> {option: value}
        self.handlers = {}
        from passlib.registry import get_crypt_handler

        schemes = cfg.get("schemes")
        self.schemes = []
        for el in _names(schemes if schemes is not None else [], "schemes"):
            name = el if isinstance(el, str) else getattr(el, "name", None)
            if not isinstance(name, str) or name in self.handlers:
                raise Invalid("bad_scheme_entry")
            H = get_crypt_handler(name, None) if isinstance(el, str) else el
            if H is None:
                raise Invalid("unknown_scheme", name)
            self.schemes.append(name)
            self.handlers[name] = H
        for key, value in cfg.items():
            cat, scheme, opt = parse_key(key)
            if scheme is None and cat is None and opt in GLOBAL_OPTIONS:
                scheme = "all"
            if scheme is None:
                if opt not in CONTEXT_OPTIONS or (cat and opt == "schemes"):
                    raise Invalid("unknown_context_option", opt)
                if opt != "schemes":
                    self.ctx.setdefault(cat, {})[opt] = value
            else:
                if opt in FORBIDDEN:
                    raise Invalid("forbidden_option", opt)
                self.opts.setdefault(scheme, {}).setdefault(cat, {})[opt] = value
        self.categories = sorted({c for d in self.opts.values() for c in d if c} | {c for c in self.ctx if c})
        self._defaults = {}
        for cat in [None] + self.categories:
            self._defaults[cat] = self._resolve_default(cat)
        self._cost = {(s, c): self._resolve_cost(s, c) for s in self.schemes for c in [None] + self.categories}

    # ---- scheme selection -------------------------------------------------------------------------------------
    def _ctxopt(self, cat, opt):
        own = self.ctx.get(cat, {})
        return own[opt] if opt in own else self.ctx.get(None, {}).get(opt)

    def _deplist(self, cat):
        v = self._ctxopt(cat, "deprecated")
        names = _names(v, "deprecated") if v is not None else []
        if "auto" in names:
            if len(names) > 1:
                raise Invalid("auto_mixed")
            return "auto"
        for n in names:
            if not isinstance(n, str):
                raise Invalid("wrong_type", "deprecated element")
            if self.schemes and n not in self.schemes:
                raise Invalid("deprecated_unknown_scheme", n)
        return names

    def _resolve_default(self, cat):
        deps = self._deplist(cat)
        d = self._ctxopt(cat, "default")
        if d is not None:
            d = getattr(d, "name", d)
            if not isinstance(d, str):
                raise Invalid("wrong_type", "default")
            if self.schemes and d not in self.schemes:
                raise Invalid("default_not_in_schemes")
            if deps != "auto" and d in deps:
                raise Invalid("default_deprecated")
            return d
        if not self.schemes:
            return None
        for s in self.schemes:
            if deps == "auto" or s not in deps:
                return s
        raise Invalid("all_deprecated")

    def cat(self, cat):
        return cat if cat in self.categories else None

    def default(self, cat=None):
        return self._defaults[self.cat(cat)]

    def deprecated(self, scheme, cat=None):
        deps = self._deplist(self.cat(cat))
        return scheme != self.default(cat) if deps == "auto" else scheme in deps

    # ---- cost policy ------------------------------------------------------------------------------------------
    def options(self, scheme, cat):
        """all[None] + all[cat] (only what the scheme accepts) + scheme[None] + scheme[cat]"""
        H = self.handlers[scheme]
        accepted = set(H.setting_kwds) | (set(ROUNDS_OPTIONS) if "rounds" in H.setting_kwds else set())
        # (documented using() options that the hasher does not list among its setting_kwds)
        accepted |= {"bcrypt_sha256": {"version"}, "django_bcrypt_sha256": {"version"}}.get(getattr(H, "name", scheme), set())
        out = {}
        for src, filt in (("all", True), (scheme, False)):
            for c in (None, cat) if cat else (None,):
                for k, v in self.opts.get(src, {}).get(c, {}).items():
                    if not filt or k in accepted:
                        out[k] = v
        for k in out:
            if k not in accepted:
                raise Invalid("unknown_scheme_option", f"{scheme}: {k}")
        return out

    def _resolve_cost(self, scheme, cat):
        """-> None (no cost parameter) or dict(lo, hi, vlo, vhi): window and range of the cost of new hashes"""
        H = self.handlers[scheme]
        o = self.options(scheme, cat)
        if "rounds" not in H.setting_kwds:
            return None
        hmin, hmax, log2 = H.min_rounds, H.max_rounds, H.rounds_cost == "log2"
        clamp = lambda x: max(hmin, x) if hmax is None else min(max(hmin, x), hmax)  # noqa: E731
        raw = {k: _int(o[k], k) for k in ("min_rounds", "max_rounds", "default_rounds", "rounds") if o.get(k) is not None}
        r = raw.pop("rounds", None)
        if r is not None:  # "sets default_rounds, min_rounds and max_rounds all at once" unless given
            for k in ("min_rounds", "max_rounds", "default_rounds"):
                raw.setdefault(k, r)
        vary = _vary(o["vary_rounds"]) if o.get("vary_rounds") is not None else 0

        def bad(v):
            mn, mx, df = v.get("min_rounds"), v.get("max_rounds"), v.get("default_rounds")
            if mn is not None and mx is not None and mn > mx:
                return "min_gt_max"
            if df is not None and ((mn is not None and df < mn) or (mx is not None and df > mx)):
                return "default_outside_limits"
            return None

        eff = {k: clamp(v) for k, v in raw.items()}  # relaxed: hard limits clip with a warning
        if bad(raw):
            if not bad(eff):
                self.unspecified.append(f"{scheme}: {bad(raw)} only before the hard limits are applied")
            else:
                raise Invalid(bad(raw), scheme)
        elif bad(eff):
            self.unspecified.append(f"{scheme}: {bad(eff)} only after the hard limits are applied")
        lo, hi = eff.get("min_rounds", hmin), eff.get("max_rounds", hmax)
        clip = lambda x: max(lo, x) if hi is None else min(max(lo, x), hi)  # noqa: E731
        d = eff.get("default_rounds", H.default_rounds)
        if d is None:
            return dict(lo=lo, hi=hi, vlo=None, vhi=None)
        d = clip(d)
        if isinstance(vary, Fraction):
            if log2:  # the share is taken on the linear scale
                D = 1 << d
                delta = (D * vary.numerator) // vary.denominator
                a = D - delta
                vlo = (a - 1).bit_length() if a >= 1 else 0  # smallest cost whose work is >= D - delta
                vhi = (D + delta).bit_length() - 1  # largest cost whose work is <= D + delta
            else:
                delta = (d * vary.numerator) // vary.denominator
                vlo, vhi = d - delta, d + delta
        else:
            vlo, vhi = d - vary, d + vary
        return dict(lo=lo, hi=hi, vlo=clip(vlo), vhi=clip(vhi))

    def window(self, scheme, cat=None):
        c = self._cost[scheme, self.cat(cat)]
        return None if c is None else (c["lo"], c["hi"])

    def new_cost(self, scheme, cat=None):
        c = self._cost[scheme, self.cat(cat)]
        return None if c is None else (c["vlo"], c["vhi"])

    # ---- decisions --------------------------------------------------------------------------------------------
    def identify(self, h):
        for s in self.schemes:
            if self.handlers[s].identify(h):
                return s
        return None

    def rounds_of(self, scheme, h):
        H = self.handlers[scheme]
        if "rounds" not in H.setting_kwds:
            return None
        if hasattr(H, "wrapped"):
            return H.wrapped.from_string(H._unwrap_hash(h)).rounds
        return H.from_string(h).rounds

    def needs_update(self, h, cat=None):
        s = self.identify(h)
        if s is None:
            raise ValueError("hash not claimed by any scheme")
        if self.deprecated(s, cat):
            return True
        w = self.window(s, cat)
        if w is not None:
            r = self.rounds_of(s, h)
            if r < w[0] or (w[1] is not None and r > w[1]):
                return True
        return bool(self.handlers[s].needs_update(h))  # the scheme's own flag

    def verify(self, p, h):
        s = self.identify(h)
        if s is None:
            raise ValueError("hash not claimed by any scheme")
        return bool(self.handlers[s].verify(p, h))

    def vau(self, p, h, cat=None):
        """shape of verify_and_update: "F" (False, None) / "T" (True, None) / "N" (True, new hash)"""
        if not self.verify(p, h):
            return "F"
        return "N" if self.needs_update(h, cat) else "T"
