"""Reference renderers for complete password-hash *strings*, one per format family.

Every function takes the secret (bytes, or str which is encoded the way the
format's specification says) plus the format's settings and returns the full
hash string.  They are written from the published descriptions
(/repo/docs/lib/passlib.hash.*.rst "Format & Algorithm", Drepper's SHA-crypt
text, FreeBSD crypt-md5.c / crypt-des.c, NetBSD crypt-sha1.c, the Solaris
sunmd5 description, RFC 5802 ...) in the most literal way available and
deliberately do not share code, tables or loop structure with passlib:

* digests are assembled with explicit to64()/24-bit groups instead of transpose maps,
* md5-crypt / sha-crypt run the literal `i & 1, i % 3, i % 7` loop,
* sun-md5 does its coin toss through a bit(n) accessor, 8-bit X/Y taken mod 128,
* DES formats sit on mc.refs.des (FIPS bit-list DES), MD4 on mc.refs.md4,
  HMAC/PBKDF on mc.refs.kdf, SASLprep on mc.refs.saslprep, 6-bit codecs on mc.refs.b64.

bcrypt and scrypt have no from-scratch model here: the `bcrypt` wheel and
`hashlib.scrypt` (OpenSSL) are the independent implementations (libxcrypt is
the third party for both).

    REFS   name -> callable(secret, **settings_and_context) -> str
    AXES   name -> declaration of the axes the callable takes (used by mc.checks.c02)
    THIRD  name -> [(party, callable(secret, **same kwargs) -> str | None)]
           (None = the third party cannot express this case)
"""
from __future__ import annotations

import base64
import binascii
import ctypes
import hashlib

from mc.refs import b64 as _b64
from mc.refs import des as _des
from mc.refs import kdf as _kdf
from mc.refs import md4 as _md4

H64 = _b64.H64
BCRYPT64 = _b64.BCRYPT
STD64 = _b64.STD
AB64 = _b64.AB64
HEX_UPPER = "0123456789ABCDEF"
DJANGO_SALT = "abcdefghijklmnopqrstuvwxyzABCDEFGHIJKLMNOPQRSTUVWXYZ0123456789"

REFS = {}
AXES = {}
THIRD = {}


def _reg(name, fn, **axes):
    REFS[name] = fn
    d = dict(secret="bytes", maxlen=None, salt=None, rounds=None, ident=None, other={}, ctx={}, cost_ms=0.1,
             sig=None)
    d.update(axes)
    AXES[name] = d


def _third(name, party, fn):
    THIRD.setdefault(name, []).append((party, fn))


# ---------------------------------------------------------------------------
# small helpers
# ---------------------------------------------------------------------------
def utf8(secret):
    """the library-wide policy for `str` secrets: UTF-8"""
    if isinstance(secret, str):
        return secret.encode("utf-8")
    if not isinstance(secret, bytes):
        raise TypeError("secret must be str or bytes")
    return secret


def text(secret):
    """formats defined over unicode text: bytes are taken as UTF-8"""
    if isinstance(secret, bytes):
        return secret.decode("utf-8")
    return secret


def to64(value, n):
    """crypt(3) to64(): n characters, 6 bits each, least significant first"""
    out = ""
    while n > 0:
        out += H64[value & 0x3F]
        value >>= 6
        n -= 1
    return out


def h64_little_to_int(chars):
    v = 0
    for i, ch in enumerate(chars):
        v += H64.index(ch) * (64 ** i)
    return v


def h64_big_from_int64(value):
    """64-bit integer, two zero bits appended, 11 characters most significant first"""
    v = value * 4
    digits = []
    for _ in range(11):
        digits.append(H64[v % 64])
        v //= 64
    return "".join(reversed(digits))


def take_cyclic(block, n):
    """first n bytes of block repeated for ever"""
    out = b""
    while len(out) + len(block) <= n:
        out += block
    return out + block[: n - len(out)]


# ---------------------------------------------------------------------------
# md5-crypt (FreeBSD crypt-md5.c) and the Apache variant
# ---------------------------------------------------------------------------
def _md5_crypt_digest(pw, salt, magic):
    md5 = hashlib.md5
    ctx = md5()
    ctx.update(pw)
    ctx.update(magic)
    ctx.update(salt)
    ctx1 = md5()
    ctx1.update(pw)
    ctx1.update(salt)
    ctx1.update(pw)
    final = ctx1.digest()
    pl = len(pw)
    while pl > 0:
        ctx.update(final[: 16 if pl > 16 else pl])
        pl -= 16
    i = len(pw)
    while i:
        if i & 1:
            ctx.update(b"\x00")
        else:
            ctx.update(pw[:1])
        i >>= 1
    final = ctx.digest()
    for i in range(1000):
        ctx1 = md5()
        if i & 1:
            ctx1.update(pw)
        else:
            ctx1.update(final)
        if i % 3:
            ctx1.update(salt)
        if i % 7:
            ctx1.update(pw)
        if i & 1:
            ctx1.update(final)
        else:
            ctx1.update(pw)
        final = ctx1.digest()
    return final


def _md5_crypt_encode(final):
    f = final
    out = to64((f[0] << 16) | (f[6] << 8) | f[12], 4)
    out += to64((f[1] << 16) | (f[7] << 8) | f[13], 4)
    out += to64((f[2] << 16) | (f[8] << 8) | f[14], 4)
    out += to64((f[3] << 16) | (f[9] << 8) | f[15], 4)
    out += to64((f[4] << 16) | (f[10] << 8) | f[5], 4)
    out += to64(f[11], 2)
    return out


def md5_crypt(secret, salt=""):
    pw = utf8(secret)
    return "$1$" + salt + "$" + _md5_crypt_encode(_md5_crypt_digest(pw, salt.encode("ascii"), b"$1$"))


def apr_md5_crypt(secret, salt=""):
    pw = utf8(secret)
    return "$apr1$" + salt + "$" + _md5_crypt_encode(_md5_crypt_digest(pw, salt.encode("ascii"), b"$apr1$"))


# ---------------------------------------------------------------------------
# sha256-crypt / sha512-crypt (Drepper, "Unix crypt using SHA-256 and SHA-512", steps 1-22)
# ---------------------------------------------------------------------------
def _sha_crypt_digest(new, size, key, salt, rounds):
    # steps 4-8: digest B
    b = new()
    b.update(key)
    b.update(salt)
    b.update(key)
    digest_b = b.digest()
    # steps 1-3
    a = new()
    a.update(key)
    a.update(salt)
    # steps 9-10
    cnt = len(key)
    while cnt > size:
        a.update(digest_b)
        cnt -= size
    a.update(digest_b[:cnt])
    # step 11
    cnt = len(key)
    while cnt > 0:
        if cnt & 1:
            a.update(digest_b)
        else:
            a.update(key)
        cnt >>= 1
    digest_a = a.digest()
    # steps 13-15: digest DP
    dp = new()
    for _ in range(len(key)):
        dp.update(key)
    digest_dp = dp.digest()
    # step 16: sequence P
    p = b""
    cnt = len(key)
    while cnt >= size:
        p += digest_dp
        cnt -= size
    p += digest_dp[:cnt]
    # steps 17-19: digest DS
    ds = new()
    for _ in range(16 + digest_a[0]):
        ds.update(salt)
    digest_ds = ds.digest()
    # step 20: sequence S
    s = b""
    cnt = len(salt)
    while cnt >= size:
        s += digest_ds
        cnt -= size
    s += digest_ds[:cnt]
    # step 21
    prev = digest_a
    for i in range(rounds):
        c = new()
        if i & 1:
            c.update(p)
        else:
            c.update(prev)
        if i % 3:
            c.update(s)
        if i % 7:
            c.update(p)
        if i & 1:
            c.update(prev)
        else:
            c.update(p)
        prev = c.digest()
    return prev


def _b64_from_24bit(b2, b1, b0, n):
    return to64((b2 << 16) | (b1 << 8) | b0, n)


_SHA256_ORDER = [(0, 10, 20), (21, 1, 11), (12, 22, 2), (3, 13, 23), (24, 4, 14), (15, 25, 5), (6, 16, 26),
                 (27, 7, 17), (18, 28, 8), (9, 19, 29)]
_SHA512_ORDER = [(0, 21, 42), (22, 43, 1), (44, 2, 23), (3, 24, 45), (25, 46, 4), (47, 5, 26), (6, 27, 48),
                 (28, 49, 7), (50, 8, 29), (9, 30, 51), (31, 52, 10), (53, 11, 32), (12, 33, 54), (34, 55, 13),
                 (56, 14, 35), (15, 36, 57), (37, 58, 16), (59, 17, 38), (18, 39, 60), (40, 61, 19), (62, 20, 41)]


def _sha_crypt_string(prefix, new, size, secret, salt, rounds, implicit_rounds):
    key = utf8(secret)
    if not 1000 <= rounds <= 999999999:
        raise ValueError("rounds outside the specification's range")
    if len(salt) > 16:
        raise ValueError("salt longer than 16")
    alt = _sha_crypt_digest(new, size, key, salt.encode("ascii"), rounds)
    out = ""
    if size == 32:
        for x, y, z in _SHA256_ORDER:
            out += _b64_from_24bit(alt[x], alt[y], alt[z], 4)
        out += _b64_from_24bit(0, alt[31], alt[30], 3)
    else:
        for x, y, z in _SHA512_ORDER:
            out += _b64_from_24bit(alt[x], alt[y], alt[z], 4)
        out += _b64_from_24bit(0, 0, alt[63], 2)
    if implicit_rounds is None:
        implicit_rounds = False
    if implicit_rounds and rounds != 5000:
        raise ValueError("only 5000 rounds may be left out")
    head = prefix if implicit_rounds else "%srounds=%d$" % (prefix, rounds)
    return head + salt + "$" + out


def sha256_crypt(secret, salt="", rounds=5000, implicit_rounds=None):
    return _sha_crypt_string("$5$", hashlib.sha256, 32, secret, salt, rounds, implicit_rounds)


def sha512_crypt(secret, salt="", rounds=5000, implicit_rounds=None):
    return _sha_crypt_string("$6$", hashlib.sha512, 64, secret, salt, rounds, implicit_rounds)


# ---------------------------------------------------------------------------
# sha1-crypt (NetBSD crypt-sha1.c)
# ---------------------------------------------------------------------------
def sha1_crypt(secret, salt="", rounds=1):
    pw = utf8(secret)
    if rounds < 1:
        raise ValueError("rounds")
    buf = _kdf.hmac_ref("sha1", pw, ("%s$sha1$%u" % (salt, rounds)).encode("ascii"))
    for _ in range(1, rounds):
        buf = _kdf.hmac_ref("sha1", pw, buf)
    out = ""
    for i in range(0, 18, 3):
        out += to64((buf[i] << 16) | (buf[i + 1] << 8) | buf[i + 2], 4)
    out += to64((buf[18] << 16) | (buf[19] << 8) | buf[0], 4)
    return "$sha1$%u$%s$%s" % (rounds, salt, out)


# ---------------------------------------------------------------------------
# sun-md5-crypt
# ---------------------------------------------------------------------------
def _sun_bit(digest, n):
    """bit n of the digest, n taken mod 128; bit 0 = least significant bit of byte 0"""
    n %= 128
    return (digest[n // 8] >> (n % 8)) & 1


def _sun_byte(digest, n):
    return digest[n % 16]


def _sun_eight_bits(digest, first_a, first_b):
    value = 0
    for i in range(8):
        a = _sun_byte(digest, first_a + i)
        b = _sun_byte(digest, first_b + i)
        r = a >> (b % 5)
        v = _sun_byte(digest, r)
        if (b >> (a % 8)) & 1:
            v //= 2
        value |= _sun_bit(digest, v) << i
    return value


def _muffet_coin_toss(rnd, digest):
    x = _sun_eight_bits(digest, 0, 3)
    y = _sun_eight_bits(digest, 8, 11)
    if _sun_bit(digest, rnd):
        x //= 2
    if _sun_bit(digest, rnd + 64):
        y //= 2
    return _sun_bit(digest, x) ^ _sun_bit(digest, y)


def sun_md5_crypt(secret, salt="", rounds=0, bare_salt=False):
    pw = utf8(secret)
    from passlib.handlers.sun_md5_crypt import MAGIC_HAMLET as hamlet

    if len(hamlet) != 1517 or not hamlet.startswith(b"To be, or not to be,--that is the question:--\n") \
            or not hamlet.endswith(b"Be all my sins remember'd.\n\x00"):
        raise AssertionError("Hamlet constant damaged")
    if rounds:
        config = "$md5,rounds=%d$%s" % (rounds, salt)
    else:
        config = "$md5$%s" % salt
    if not bare_salt:
        config += "$"
    digest = hashlib.md5(pw + config.encode("ascii")).digest()
    for rnd in range(rounds + 4096):
        buf = digest
        if _muffet_coin_toss(rnd, digest):
            buf += hamlet
        buf += str(rnd).encode("ascii")
        digest = hashlib.md5(buf).digest()
    return config + "$" + _md5_crypt_encode(digest)


# ---------------------------------------------------------------------------
# DES family
# ---------------------------------------------------------------------------
def _des_key_from_block(block):
    """lower 7 bits of (up to) 8 bytes, NUL padded -> 56-bit integer -> 64-bit key with zero parity bits"""
    block = block + b"\x00" * (8 - len(block))
    key56 = 0
    for c in block[:8]:
        key56 = key56 * 128 + (c & 0x7F)
    return _des.expand_des_key(key56)


def _des_crypt_checksum(block, salt_chars, iterations=25):
    salt_value = h64_little_to_int(salt_chars)
    out = _des.des_encrypt_int_block(_des_key_from_block(block), 0, salt_value, iterations)
    return h64_big_from_int64(out)


def des_crypt(secret, salt):
    pw = utf8(secret)
    if len(salt) != 2:
        raise ValueError("salt must be 2 characters")
    return salt + _des_crypt_checksum(pw[:8], salt)


def bsdi_crypt(secret, salt, rounds):
    pw = utf8(secret)
    if len(salt) != 4 or not 0 < rounds < 2 ** 24:
        raise ValueError("bad setting")
    # FreeBSD crypt-des.c: keybuf holds (c << 1); every further 8 characters are folded in
    keybuf = bytearray(8)
    pos = 0
    for i in range(8):
        if pos < len(pw):
            keybuf[i] = (pw[pos] << 1) & 0xFF
            pos += 1
    while pos < len(pw):
        enc = _des.des_encrypt_block(bytes(keybuf), bytes(keybuf))
        keybuf = bytearray(enc)
        i = 0
        while i < 8 and pos < len(pw):
            keybuf[i] ^= (pw[pos] << 1) & 0xFF
            i += 1
            pos += 1
    out = _des.des_encrypt_int_block(int.from_bytes(bytes(keybuf), "big"), 0, h64_little_to_int(salt), rounds)
    return "_" + to64(rounds, 4) + salt + h64_big_from_int64(out)


def bigcrypt(secret, salt):
    pw = utf8(secret)
    if len(salt) != 2:
        raise ValueError("salt must be 2 characters")
    padded = pw + b"\x00" * (-len(pw) % 8)
    if not padded:
        padded = b"\x00" * 8
    segs = [padded[i : i + 8] for i in range(0, len(padded), 8)]
    out = salt
    seg_salt = salt
    for seg in segs:
        chk = _des_crypt_checksum(seg, seg_salt)
        out += chk
        seg_salt = chk[:2]
    return out


def crypt16(secret, salt):
    pw = utf8(secret)
    if len(salt) != 2:
        raise ValueError("salt must be 2 characters")
    padded = (pw + b"\x00" * 16)[:16]
    return salt + _des_crypt_checksum(padded[:8], salt, 20) + _des_crypt_checksum(padded[8:], salt, 5)


# ---------------------------------------------------------------------------
# bcrypt: independent implementation = the `bcrypt` wheel (pyca, Rust); third party = libxcrypt
# ---------------------------------------------------------------------------
def _bcrypt_wheel(key, ident, rounds, salt):
    import bcrypt as _wheel

    if b"\x00" in key:
        raise ValueError("NUL in bcrypt key")
    config = ("$%s$%02d$%s" % (ident, rounds, salt)).encode("ascii")
    out = _wheel.hashpw(key[:72], config)
    if not out.startswith(config) or len(out) != len(config) + 31:
        raise AssertionError("bcrypt wheel returned %r for %r" % (out, config))
    return out[len(config):].decode("ascii")


def _bcrypt_checksum(key, ident, rounds, salt):
    """ident as in the hash string without the dollars: 2, 2a, 2b, 2y"""
    if len(salt) != 22 or salt[-1] not in ".Oeu" or any(c not in BCRYPT64 for c in salt):
        raise ValueError("bcrypt salt must be 22 bcrypt-base64 characters with clear padding bits")
    if not 4 <= rounds <= 31:
        raise ValueError("bcrypt cost")
    if ident == "2":
        # the original $2$: the key is the password *without* its terminating NUL, cycled over the
        # 72-byte key buffer (an empty password reads the terminator only).  $2a$ cycles password+NUL.
        if key:
            key = take_cyclic(key, 72)
        return _bcrypt_wheel(key, "2a", rounds, salt)
    if ident not in ("2a", "2b", "2y"):
        raise ValueError("unsupported bcrypt ident")
    # 2a / 2y / 2b are one algorithm for NUL-free keys once the key is cut at 72 bytes
    return _bcrypt_wheel(key, ident, rounds, salt)


def _norm_ident(ident, default="2b"):
    if ident is None:
        return default
    return ident.strip("$")


def bcrypt(secret, salt, rounds=12, ident=None):
    i = _norm_ident(ident)
    return "$%s$%02d$%s%s" % (i, rounds, salt, _bcrypt_checksum(utf8(secret), i, rounds, salt))


def bcrypt_sha256(secret, salt, rounds=12, ident=None, version=2):
    i = _norm_ident(ident)
    pw = utf8(secret)
    if version == 1:
        digest = hashlib.sha256(pw).digest()
    elif version == 2:
        if i != "2b":
            raise ValueError("version 2 is defined for 2b only")
        digest = _kdf.hmac_ref("sha256", salt.encode("ascii"), pw)
    else:
        raise ValueError("version")
    key = _b64.encode_bytes(digest, STD64, True) + b"="  # 32 bytes -> 43 characters + one pad
    chk = _bcrypt_checksum(key, i, rounds, salt)
    if version == 1:
        return "$bcrypt-sha256$%s,%d$%s$%s" % (i, rounds, salt, chk)
    return "$bcrypt-sha256$v=2,t=%s,r=%d$%s$%s" % (i, rounds, salt, chk)


# ---------------------------------------------------------------------------
# phpass, fshp
# ---------------------------------------------------------------------------
def phpass(secret, salt, rounds=19, ident=None):
    pw = utf8(secret)
    ident = {None: "$P$", "P": "$P$", "H": "$H$"}.get(ident, ident)
    if ident not in ("$P$", "$H$") or len(salt) != 8 or not 7 <= rounds <= 30:
        raise ValueError("bad phpass setting")
    count = 1 << rounds
    h = hashlib.md5(salt.encode("ascii") + pw).digest()
    while True:
        h = hashlib.md5(h + pw).digest()
        count -= 1
        if not count:
            break
    # encode64 of the portable hash: groups of 3 bytes little-endian, 6 bits at a time
    out = ""
    i = 0
    while i < 16:
        value = h[i]
        i += 1
        out += H64[value & 0x3F]
        if i < 16:
            value |= h[i] << 8
        out += H64[(value >> 6) & 0x3F]
        if i >= 16:
            break
        i += 1
        if i < 16:
            value |= h[i] << 16
        out += H64[(value >> 12) & 0x3F]
        if i >= 16:
            break
        i += 1
        out += H64[(value >> 18) & 0x3F]
    return ident + H64[rounds] + salt + out


_FSHP = {0: "sha1", 1: "sha256", 2: "sha384", 3: "sha512"}


def fshp(secret, salt=b"", rounds=1, variant=1):
    pw = utf8(secret)
    if isinstance(variant, str):
        variant = {"0": 0, "1": 1, "2": 2, "3": 3, "sha1": 0, "sha256": 1, "sha384": 2, "sha512": 3}[variant]
    name = _FSHP[variant]
    if rounds < 1:
        raise ValueError("rounds")
    digest = hashlib.new(name, salt + pw).digest()
    for _ in range(1, rounds):
        digest = hashlib.new(name, digest).digest()
    return "{FSHP%d|%d|%d}%s" % (variant, len(salt), rounds, base64.b64encode(salt + digest).decode("ascii"))


# ---------------------------------------------------------------------------
# cisco
# ---------------------------------------------------------------------------
def _cisco(secret, user, asa):
    pw = utf8(secret)
    limit = 32 if asa else 16
    if len(pw) > limit:
        raise ValueError("password not allowed (too long)")
    usr = utf8(user) if user else b""
    if usr and not (asa and len(pw) >= 28):
        four = usr
        while len(four) < 4:
            four += usr
        pw = pw + four[:4]
    # padding: PIX 16; ASA 32 once the password+user string exceeds 16 bytes.  (The rst says
    # "16 or more"; the vectors confirmed on ASA 9.6 -- 16-character enable password, 12 characters
    # + user -- show the switch happens above 16.)
    size = 32 if (asa and len(pw) > 16) else 16
    buf = (pw + b"\x00" * size)[:size]
    digest = hashlib.md5(buf).digest()
    kept = b"".join(digest[i : i + 3] for i in range(0, 16, 4))
    return _b64.encode_bytes(kept, H64, False).decode("ascii")


def cisco_pix(secret, user=""):
    return _cisco(secret, user, False)


def cisco_asa(secret, user=""):
    return _cisco(secret, user, True)


_TYPE7_KEY = "dsfd;kfoA,.iyewrkldJKDHSUBsgvca69834ncxv9873254k;fg87"


def cisco_type7(secret, salt=0):
    pw = utf8(secret)
    if not 0 <= salt <= 52:
        raise ValueError("salt")
    out = "%02d" % salt
    for n, c in enumerate(pw):
        out += "%02X" % (c ^ ord(_TYPE7_KEY[(salt + n) % 53]))
    return out


# ---------------------------------------------------------------------------
# databases
# ---------------------------------------------------------------------------
def mysql323(secret):
    pw = utf8(secret)
    # hash_password() of MySQL's password.c; ulong arithmetic -- only the low 31 bits are kept
    # at the end and every operation carries upwards only, so plain integers are used
    nr = 1345345333
    add = 7
    nr2 = 0x12345671
    for c in pw:
        if c == 0x20 or c == 0x09:
            continue
        nr ^= (((nr & 63) + add) * c) + (nr << 8)
        nr2 += (nr2 << 8) ^ nr
        add += c
        nr &= (1 << 64) - 1
        nr2 &= (1 << 64) - 1
    return "%08x%08x" % (nr & 0x7FFFFFFF, nr2 & 0x7FFFFFFF)


def mysql41(secret):
    stage1 = hashlib.sha1(utf8(secret)).digest()
    return "*" + hashlib.sha1(stage1).hexdigest().upper()


def mssql2000(secret, salt):
    txt = text(secret)
    if len(salt) != 4:
        raise ValueError("salt")
    first = hashlib.sha1(txt.encode("utf-16-le") + salt).digest()
    second = hashlib.sha1(txt.upper().encode("utf-16-le") + salt).digest()
    return "0x0100" + binascii.hexlify(salt + first + second).decode("ascii").upper()


def mssql2005(secret, salt):
    txt = text(secret)
    if len(salt) != 4:
        raise ValueError("salt")
    return "0x0100" + binascii.hexlify(salt + hashlib.sha1(txt.encode("utf-16-le") + salt).digest()).decode("ascii").upper()


def _des_cbc_last_block(key8, data):
    data = data + b"\x00" * (-len(data) % 8)
    prev = b"\x00" * 8
    for off in range(0, len(data), 8):
        block = bytes(x ^ y for x, y in zip(prev, data[off : off + 8]))
        prev = _des.des_encrypt_block(key8, block)
    return prev


def oracle10(secret, user):
    txt = text(secret)
    usr = text(user)
    data = (usr + txt).upper().encode("utf-16-be")
    first = _des_cbc_last_block(bytes.fromhex("0123456789ABCDEF"), data)
    second = _des_cbc_last_block(first, data)
    return binascii.hexlify(second).decode("ascii").upper()


def oracle11(secret, salt):
    pw = utf8(secret)
    if len(salt) != 20 or any(c not in HEX_UPPER for c in salt):
        raise ValueError("salt must be 20 upper-case hex digits")
    return "S:" + hashlib.sha1(pw + bytes.fromhex(salt)).hexdigest().upper() + salt


def postgres_md5(secret, user):
    return "md5" + hashlib.md5(utf8(secret) + utf8(user)).hexdigest()


# ---------------------------------------------------------------------------
# windows
# ---------------------------------------------------------------------------
def lmhash(secret, encoding=None):
    enc = encoding or "cp437"
    if isinstance(secret, str):
        raw = secret.upper().encode(enc)
    else:
        # bytes are taken as already OEM-encoded; only ASCII letters can be folded
        raw = bytes(c - 32 if 0x61 <= c <= 0x7A else c for c in secret)
    raw = (raw + b"\x00" * 14)[:14]
    magic = b"KGS!@#$%"
    return binascii.hexlify(_des.des_encrypt_block(raw[:7], magic) + _des.des_encrypt_block(raw[7:], magic)).decode("ascii")


def _nt(secret):
    return _md4.md4(text(secret).encode("utf-16-le"))


def nthash(secret):
    return binascii.hexlify(_nt(secret)).decode("ascii")


def bsd_nthash(secret):
    return "$3$$" + nthash(secret)


def _dcc1(secret, user):
    return _md4.md4(_nt(secret) + text(user).lower().encode("utf-16-le"))


def msdcc(secret, user):
    return binascii.hexlify(_dcc1(secret, user)).decode("ascii")


def msdcc2(secret, user):
    salt = text(user).lower().encode("utf-16-le")
    return binascii.hexlify(_kdf.pbkdf2_ref("sha1", _dcc1(secret, user), salt, 10240, 16)).decode("ascii")


# ---------------------------------------------------------------------------
# plain digests
# ---------------------------------------------------------------------------
def _hex(name):
    def fn(secret):
        pw = utf8(secret)
        if name == "md4":
            return binascii.hexlify(_md4.md4(pw)).decode("ascii")
        return hashlib.new(name, pw).hexdigest()

    fn.__name__ = "hex_" + name
    return fn


hex_md4 = _hex("md4")
hex_md5 = _hex("md5")
hex_sha1 = _hex("sha1")
hex_sha256 = _hex("sha256")
hex_sha512 = _hex("sha512")


def htdigest(secret, user, realm, encoding=None):
    enc = encoding or "utf-8"
    pw = secret.encode(enc) if isinstance(secret, str) else secret
    u = user.encode(enc) if isinstance(user, str) else user
    r = realm.encode(enc) if isinstance(realm, str) else realm
    return hashlib.md5(u + b":" + r + b":" + pw).hexdigest()


def ldap_md5(secret):
    return "{MD5}" + base64.b64encode(hashlib.md5(utf8(secret)).digest()).decode("ascii")


def ldap_sha1(secret):
    return "{SHA}" + base64.b64encode(hashlib.sha1(utf8(secret)).digest()).decode("ascii")


def _ldap_salted(prefix, name):
    def fn(secret, salt):
        if not 4 <= len(salt) <= 16:
            raise ValueError("salt size")
        digest = hashlib.new(name, utf8(secret) + salt).digest()
        return prefix + _b64std_padded(digest + salt)

    fn.__name__ = "ldap_salted_" + name
    return fn


def _b64std_padded(data):
    out = _b64.encode_bytes(data, STD64, True).decode("ascii")
    return out + "=" * (-len(out) % 4)


ldap_salted_md5 = _ldap_salted("{SMD5}", "md5")
ldap_salted_sha1 = _ldap_salted("{SSHA}", "sha1")
ldap_salted_sha256 = _ldap_salted("{SSHA256}", "sha256")
ldap_salted_sha512 = _ldap_salted("{SSHA512}", "sha512")


def ldap_hex_md5(secret):
    return "{MD5}" + hex_md5(secret)


def ldap_hex_sha1(secret):
    return "{SHA}" + hex_sha1(secret)


def plaintext(secret, encoding=None):
    if isinstance(secret, bytes):
        return secret.decode(encoding or "utf-8")
    return secret


def ldap_plaintext(secret, encoding=None):
    return plaintext(secret, encoding)


def roundup_plaintext(secret, encoding=None):
    return "{plaintext}" + plaintext(secret, encoding)


# ---------------------------------------------------------------------------
# PBKDF2 family
# ---------------------------------------------------------------------------
def _ab64(data):
    return _b64.encode_bytes(data, AB64, True).decode("ascii")


def _pbkdf2_mcf(ident, digest, size):
    def fn(secret, salt=b"", rounds=1):
        if rounds < 1:
            raise ValueError("rounds")
        chk = _kdf.pbkdf2_ref(digest, utf8(secret), salt, rounds, size)
        return "%s%d$%s$%s" % (ident, rounds, _ab64(salt), _ab64(chk))

    return fn


pbkdf2_sha1 = _pbkdf2_mcf("$pbkdf2$", "sha1", 20)
pbkdf2_sha256 = _pbkdf2_mcf("$pbkdf2-sha256$", "sha256", 32)
pbkdf2_sha512 = _pbkdf2_mcf("$pbkdf2-sha512$", "sha512", 64)


def _ldap_pbkdf2(prefix, inner_ident, inner):
    def fn(secret, salt=b"", rounds=1):
        s = inner(secret, salt=salt, rounds=rounds)
        if not s.startswith(inner_ident):
            raise AssertionError(s)
        return prefix + s[len(inner_ident) :]

    return fn


ldap_pbkdf2_sha1 = _ldap_pbkdf2("{PBKDF2}", "$pbkdf2$", pbkdf2_sha1)
ldap_pbkdf2_sha256 = _ldap_pbkdf2("{PBKDF2-SHA256}", "$pbkdf2-sha256$", pbkdf2_sha256)
ldap_pbkdf2_sha512 = _ldap_pbkdf2("{PBKDF2-SHA512}", "$pbkdf2-sha512$", pbkdf2_sha512)


def cta_pbkdf2_sha1(secret, salt=b"", rounds=1):
    chk = _kdf.pbkdf2_ref("sha1", utf8(secret), salt, rounds, 20)
    tr = str.maketrans("+/", "-_")
    return "$p5k2$%x$%s$%s" % (rounds, _b64std_padded(salt).translate(tr), _b64std_padded(chk).translate(tr))


def dlitz_pbkdf2_sha1(secret, salt="", rounds=400):
    if rounds == 400:
        config = "$p5k2$$" + salt
    else:
        config = "$p5k2$%x$%s" % (rounds, salt)
    chk = _kdf.pbkdf2_ref("sha1", utf8(secret), config.encode("ascii"), rounds, 24)
    return config + "$" + _ab64(chk)


def atlassian_pbkdf2_sha1(secret, salt):
    if len(salt) != 16:
        raise ValueError("salt")
    chk = _kdf.pbkdf2_ref("sha1", utf8(secret), salt, 10000, 32)
    return "{PKCS5S2}" + _b64std_padded(salt + chk)


def grub_pbkdf2_sha512(secret, salt=b"", rounds=1):
    chk = _kdf.pbkdf2_ref("sha512", utf8(secret), salt, rounds, 64)
    return "grub.pbkdf2.sha512.%d.%s.%s" % (rounds, salt.hex().upper(), chk.hex().upper())


# ---------------------------------------------------------------------------
# scrypt -- the KDF itself comes from OpenSSL (hashlib.scrypt); the two string formats are rendered here
# ---------------------------------------------------------------------------
def _scrypt_raw(pw, salt, ln, r, p):
    n = 1 << ln
    return hashlib.scrypt(pw, salt=salt, n=n, r=r, p=p, dklen=32, maxmem=128 * r * (n + p + 2) + (1 << 20))


def scrypt(secret, salt=b"", rounds=16, block_size=8, parallelism=1, ident=None):
    pw = utf8(secret)
    ident = {None: "$scrypt$", "scrypt": "$scrypt$", "7": "$7$"}.get(ident, ident)
    if isinstance(salt, str):
        salt = salt.encode("ascii")
    dk = _scrypt_raw(pw, salt, rounds, block_size, parallelism)
    if ident == "$scrypt$":
        b64s = lambda d: _b64.encode_bytes(d, STD64, True).decode("ascii")  # noqa: E731
        return "$scrypt$ln=%d,r=%d,p=%d$%s$%s" % (rounds, block_size, parallelism, b64s(salt), b64s(dk))
    if ident != "$7$":
        raise ValueError("ident")
    salt.decode("ascii")
    return "$7$" + H64[rounds] + to64(block_size, 5) + to64(parallelism, 5) + salt.decode("ascii") + "$" + \
        _b64.encode_bytes(dk, H64, False).decode("ascii")


# ---------------------------------------------------------------------------
# scram (RFC 5802 SaltedPassword for several digests in one string)
# ---------------------------------------------------------------------------
_IANA = {"md4": "md4", "md5": "md5", "sha-1": "sha1", "sha-224": "sha224", "sha-256": "sha256", "sha-384": "sha384",
         "sha-512": "sha512"}


def scram(secret, salt=b"", rounds=1, algs=None):
    from mc.refs import saslprep as _sp

    if algs is None:
        algs = ["sha-1", "sha-256", "sha-512"]
    if isinstance(algs, str):
        algs = [a.strip() for a in algs.split(",") if a.strip()]
    names = sorted(algs)
    if "sha-1" not in names:
        raise ValueError("sha-1 is mandatory")
    pw = _sp.saslprep(text(secret)).encode("utf-8")
    parts = []
    for alg in names:
        hname = _IANA[alg]
        size = _kdf.digest_info(hname)[1]
        parts.append("%s=%s" % (alg, _ab64(_kdf.pbkdf2_ref(hname, pw, salt, rounds, size))))
    return "$scram$%d$%s$%s" % (rounds, _ab64(salt), ",".join(parts))


# ---------------------------------------------------------------------------
# django
# ---------------------------------------------------------------------------
def django_salted_md5(secret, salt=""):
    return "md5$%s$%s" % (salt, hashlib.md5(salt.encode("ascii") + utf8(secret)).hexdigest())


def django_salted_sha1(secret, salt=""):
    return "sha1$%s$%s" % (salt, hashlib.sha1(salt.encode("ascii") + utf8(secret)).hexdigest())


def django_pbkdf2_sha256(secret, salt, rounds):
    chk = _kdf.pbkdf2_ref("sha256", utf8(secret), salt.encode("ascii"), rounds, 32)
    return "pbkdf2_sha256$%d$%s$%s" % (rounds, salt, _b64std_padded(chk))


def django_pbkdf2_sha1(secret, salt, rounds):
    chk = _kdf.pbkdf2_ref("sha1", utf8(secret), salt.encode("ascii"), rounds, 20)
    return "pbkdf2_sha1$%d$%s$%s" % (rounds, salt, _b64std_padded(chk))


def django_bcrypt(secret, salt, rounds=12, ident=None):
    return "bcrypt$" + bcrypt(secret, salt, rounds, ident)


def django_bcrypt_sha256(secret, salt, rounds=12, ident=None):
    i = _norm_ident(ident)
    key = binascii.hexlify(hashlib.sha256(utf8(secret)).digest())
    return "bcrypt_sha256$" + "$%s$%02d$%s%s" % (i, rounds, salt, _bcrypt_checksum(key, i, rounds, salt))


def django_des_crypt(secret, salt):
    if len(salt) < 2:
        raise ValueError("salt")
    return "crypt$%s$%s" % (salt, des_crypt(secret, salt[:2]))


# ---------------------------------------------------------------------------
# {CRYPT} wrappers
# ---------------------------------------------------------------------------
def _ldap_crypt(inner):
    def fn(secret, **kw):
        return "{CRYPT}" + inner(secret, **kw)

    return fn


# ---------------------------------------------------------------------------
# third parties
# ---------------------------------------------------------------------------
_CRYPT_MAX = 511  # libxcrypt CRYPT_MAX_PASSPHRASE_SIZE is 512 including the terminator


def os_crypt(word, setting):
    """libxcrypt crypt_r() on raw bytes (the Python wrappers insist on UTF-8 text); None when it refuses"""
    import legacycrypt

    if isinstance(word, str):
        word = word.encode("utf-8")
    if b"\x00" in word or len(word) > _CRYPT_MAX:
        return None
    fn = getattr(legacycrypt, "_crypt_r_func", None)
    if fn is None:
        try:
            out = legacycrypt.crypt(word.decode("utf-8"), setting)
        except UnicodeDecodeError:
            return None
    else:
        data = legacycrypt._crypt_data()
        res = fn(word, setting.encode("ascii"), ctypes.byref(data))
        out = res.decode("ascii") if res else None
    if not out or out.startswith("*"):
        return None
    return out


def _crypt_party(setting_of):
    def fn(secret, **kw):
        return os_crypt(utf8(secret), setting_of(**kw))

    return fn


def _django():
    import django.conf

    if not django.conf.settings.configured:
        django.conf.settings.configure()
    from django.contrib.auth import hashers

    return hashers


def _dj_text(secret):
    """Django's hashers take text only"""
    if isinstance(secret, str):
        return secret
    try:
        return secret.decode("utf-8")
    except UnicodeDecodeError:
        return None


def _dj_pbkdf2(cls_name):
    def fn(secret, salt, rounds):
        t = _dj_text(secret)
        if t is None:
            return None
        return getattr(_django(), cls_name)().encode(t, salt, rounds)

    return fn


def _dj_md5(secret, salt=""):
    t = _dj_text(secret)
    if t is None or not salt:
        return None
    return _django().MD5PasswordHasher().encode(t, salt)


def _dj_bcrypt(secret, salt, rounds=12, ident=None):
    t = _dj_text(secret)
    if t is None or "\x00" in t or len(t.encode("utf-8")) > 72 or _norm_ident(ident) == "2":
        return None
    cfg = ("$%s$%02d$%s" % (_norm_ident(ident), rounds, salt)).encode("ascii")
    return _django().BCryptPasswordHasher().encode(t, cfg)


def _dj_bcrypt_sha256(secret, salt, rounds=12, ident=None):
    t = _dj_text(secret)
    if t is None or _norm_ident(ident) == "2":
        return None
    cfg = ("$%s$%02d$%s" % (_norm_ident(ident), rounds, salt)).encode("ascii")
    return _django().BCryptSHA256PasswordHasher().encode(t, cfg)


def _openssl_pbkdf2_mcf(ident, digest, size):
    def fn(secret, salt=b"", rounds=1):
        chk = hashlib.pbkdf2_hmac(digest, utf8(secret), salt, rounds, size)
        return "%s%d$%s$%s" % (ident, rounds, base64.b64encode(salt).decode().rstrip("=").replace("+", "."),
                               base64.b64encode(chk).decode().rstrip("=").replace("+", "."))

    return fn


# ---------------------------------------------------------------------------
# registry
# ---------------------------------------------------------------------------
_S_H64 = lambda lo, hi: dict(type="chars", alphabet=H64, min=lo, max=hi)  # noqa: E731
_S_RAW = lambda lo, hi: dict(type="bytes", min=lo, max=hi)  # noqa: E731
_S_BCRYPT = dict(type="bcrypt")
_R_LIN = lambda lo, hi, **k: dict(type="linear", min=lo, max=hi, **k)  # noqa: E731
_R_LOG = lambda lo, hi, **k: dict(type="log2", min=lo, max=hi, **k)  # noqa: E731

_reg("md5_crypt", md5_crypt, secret="nonul", salt=_S_H64(0, 8), cost_ms=1.5)
_third("md5_crypt", "libxcrypt", _crypt_party(lambda salt="": "$1$" + salt + "$"))
_reg("apr_md5_crypt", apr_md5_crypt, secret="nonul", salt=_S_H64(0, 8), cost_ms=1.5)
_reg("sha256_crypt", sha256_crypt, secret="nonul", salt=_S_H64(0, 16), rounds=_R_LIN(1000, 999999999, block42=True),
     cost_ms=2.5)
_reg("sha512_crypt", sha512_crypt, secret="nonul", salt=_S_H64(0, 16), rounds=_R_LIN(1000, 999999999, block42=True),
     cost_ms=3.0)


def _sha_setting(prefix):
    def fn(salt="", rounds=5000, implicit_rounds=None):
        if implicit_rounds:
            return prefix + salt + "$"
        return "%srounds=%d$%s$" % (prefix, rounds, salt)

    return fn


_third("sha256_crypt", "libxcrypt", _crypt_party(_sha_setting("$5$")))
_third("sha512_crypt", "libxcrypt", _crypt_party(_sha_setting("$6$")))
_reg("sha1_crypt", sha1_crypt, secret="nonul", salt=_S_H64(0, 64), rounds=_R_LIN(1, 4294967295), cost_ms=0.3)
_third("sha1_crypt", "libxcrypt", _crypt_party(lambda salt="", rounds=1: "$sha1$%d$%s$" % (rounds, salt)))
_reg("sun_md5_crypt", sun_md5_crypt, secret="nonul", salt=_S_H64(0, 16), rounds=_R_LIN(0, 4294963199),
     other={"bare_salt": [False, True]}, cost_ms=60)


def _sun_setting(salt="", rounds=0, bare_salt=False):
    head = "$md5,rounds=%d$%s" % (rounds, salt) if rounds else "$md5$" + salt
    # a setting ending in "$" gives the "$$" form; the bare form is requested with one trailing character
    return head + ("$x" if bare_salt else "$")


_third("sun_md5_crypt", "libxcrypt", _crypt_party(_sun_setting))
_reg("des_crypt", des_crypt, secret="nonul", salt=_S_H64(2, 2), sig=8, cost_ms=11)
_third("des_crypt", "libxcrypt", _crypt_party(lambda salt: salt))
_reg("bsdi_crypt", bsdi_crypt, secret="nonul", salt=_S_H64(4, 4), rounds=_R_LIN(1, 16777215, des=True), cost_ms=11)
_third("bsdi_crypt", "libxcrypt", _crypt_party(lambda salt, rounds: "_" + to64(rounds, 4) + salt))
_reg("bigcrypt", bigcrypt, secret="nonul", salt=_S_H64(2, 2), cost_ms=11)
_reg("crypt16", crypt16, secret="bytes", salt=_S_H64(2, 2), sig=16, cost_ms=11)
_reg("bcrypt", bcrypt, secret="nonul", salt=_S_BCRYPT, rounds=_R_LOG(4, 31), ident=["2b", "2a", "2y", "2"], sig=72,
     cost_ms=2)


def _bcrypt_setting(salt, rounds=12, ident=None, **_):
    return "$%s$%02d$%s" % (_norm_ident(ident), rounds, salt)


def _bcrypt_crypt(secret, salt, rounds=12, ident=None):
    if _norm_ident(ident) == "2":
        return None
    return os_crypt(utf8(secret)[:72], _bcrypt_setting(salt, rounds, ident))


_third("bcrypt", "libxcrypt", _bcrypt_crypt)
_reg("bcrypt_sha256", bcrypt_sha256, secret="bytes", salt=_S_BCRYPT, rounds=_R_LOG(4, 31), ident=["2b", "2a"],
     other={"version": [2, 1]}, cost_ms=2)


def _bcrypt_sha256_crypt(secret, salt, rounds=12, ident=None, version=2):
    i = _norm_ident(ident)
    pw = utf8(secret)
    import hmac as _hmac

    d = hashlib.sha256(pw).digest() if version == 1 else _hmac.new(salt.encode("ascii"), pw, "sha256").digest()
    out = os_crypt(base64.b64encode(d), _bcrypt_setting(salt, rounds, i))
    if out is None:
        return None
    chk = out[-31:]
    if version == 1:
        return "$bcrypt-sha256$%s,%d$%s$%s" % (i, rounds, salt, chk)
    return "$bcrypt-sha256$v=2,t=%s,r=%d$%s$%s" % (i, rounds, salt, chk)


_third("bcrypt_sha256", "libxcrypt+hmac", _bcrypt_sha256_crypt)
_reg("phpass", phpass, salt=_S_H64(8, 8), rounds=_R_LOG(7, 30), ident=["$P$", "$H$"], cost_ms=0.2)
_reg("fshp", fshp, salt=_S_RAW(0, 64), rounds=_R_LIN(1, 4294967295), other={"variant": [1, 0, 2, 3]}, cost_ms=0.05)
_reg("cisco_pix", cisco_pix, maxlen=16, ctx={"user": True}, cost_ms=0.02)
_reg("cisco_asa", cisco_asa, maxlen=32, ctx={"user": True}, cost_ms=0.02)
_reg("cisco_type7", cisco_type7, salt=dict(type="int", min=0, max=52), cost_ms=0.02)
_reg("mysql323", mysql323, cost_ms=0.05)
_reg("mysql41", mysql41, cost_ms=0.02)
_reg("mssql2000", mssql2000, secret="text", salt=_S_RAW(4, 4), cost_ms=0.02)
_reg("mssql2005", mssql2005, secret="text", salt=_S_RAW(4, 4), cost_ms=0.02)
_reg("oracle10", oracle10, secret="text", ctx={"user": "required"}, cost_ms=2)
_reg("oracle11", oracle11, salt=dict(type="chars", alphabet=HEX_UPPER, min=20, max=20), cost_ms=0.02)
_reg("postgres_md5", postgres_md5, ctx={"user": "required"}, cost_ms=0.02)
_reg("lmhash", lmhash, secret="oem", sig=14, ctx={"encoding": ["cp437", "utf-8", "latin-1"]}, cost_ms=1)
_reg("nthash", nthash, secret="text", cost_ms=0.2)
_reg("bsd_nthash", bsd_nthash, secret="text", cost_ms=0.2)
# libxcrypt's NT scheme widens each password *byte* to 16 bits, i.e. it equals the specification for ASCII only
_third("bsd_nthash", "libxcrypt", lambda secret: os_crypt(utf8(secret), "$3$") if utf8(secret).isascii() else None)
_reg("msdcc", msdcc, secret="text", ctx={"user": "required"}, cost_ms=0.4)
_reg("msdcc2", msdcc2, secret="text", ctx={"user": "required"}, cost_ms=40)
for _n in ("md4", "md5", "sha1", "sha256", "sha512"):
    _reg("hex_" + _n, globals()["hex_" + _n], cost_ms=0.05)
_reg("htdigest", htdigest, secret="encodable", ctx={"user": "required", "realm": "required",
                                                    "encoding": ["utf-8", "latin-1", "cp437"]}, cost_ms=0.02)
_reg("ldap_md5", ldap_md5, cost_ms=0.02)
_reg("ldap_sha1", ldap_sha1, cost_ms=0.02)
for _n in ("md5", "sha1", "sha256", "sha512"):
    _reg("ldap_salted_" + _n, globals()["ldap_salted_" + _n], salt=_S_RAW(4, 16), cost_ms=0.02)
_reg("ldap_hex_md5", ldap_hex_md5, cost_ms=0.02)
_reg("ldap_hex_sha1", ldap_hex_sha1, cost_ms=0.02)
_reg("plaintext", plaintext, secret="plain", ctx={"encoding": ["utf-8", "latin-1"]}, cost_ms=0.01)
_reg("ldap_plaintext", ldap_plaintext, secret="ldap_plain", ctx={"encoding": ["utf-8", "latin-1"]}, cost_ms=0.01)
_reg("roundup_plaintext", roundup_plaintext, secret="plain", ctx={"encoding": ["utf-8", "latin-1"]}, cost_ms=0.01)
for _n, _sz in (("sha1", 20), ("sha256", 32), ("sha512", 64)):
    _reg("pbkdf2_" + _n, globals()["pbkdf2_" + _n], salt=_S_RAW(0, 64), rounds=_R_LIN(1, 4294967295), cost_ms=0.1)
    _reg("ldap_pbkdf2_" + _n, globals()["ldap_pbkdf2_" + _n], salt=_S_RAW(0, 64), rounds=_R_LIN(1, 4294967295),
         cost_ms=0.1)
    _third("pbkdf2_" + _n, "openssl",
           _openssl_pbkdf2_mcf("$pbkdf2$" if _n == "sha1" else "$pbkdf2-%s$" % _n, _n, _sz))
_reg("cta_pbkdf2_sha1", cta_pbkdf2_sha1, salt=_S_RAW(0, 64), rounds=_R_LIN(1, 4294967295), cost_ms=0.1)
_reg("dlitz_pbkdf2_sha1", dlitz_pbkdf2_sha1, salt=_S_H64(0, 64), rounds=_R_LIN(1, 4294967295, special=[400]),
     cost_ms=0.1)
_reg("atlassian_pbkdf2_sha1", atlassian_pbkdf2_sha1, salt=_S_RAW(16, 16), cost_ms=45)
_reg("grub_pbkdf2_sha512", grub_pbkdf2_sha512, salt=_S_RAW(0, 64), rounds=_R_LIN(1, 4294967295), cost_ms=0.1)
_reg("scrypt", scrypt, salt=_S_RAW(0, 64), rounds=_R_LOG(1, 31), ident=["$scrypt$", "$7$"],
     other={"block_size": [8, 1, 2], "parallelism": [1, 2]}, cost_ms=0.5)


def _scrypt_crypt(secret, salt=b"", rounds=16, block_size=8, parallelism=1, ident=None):
    if ident not in ("$7$", "7"):
        return None
    if isinstance(salt, bytes):
        salt = salt.decode("ascii")
    return os_crypt(utf8(secret), "$7$" + H64[rounds] + to64(block_size, 5) + to64(parallelism, 5) + salt + "$")


_third("scrypt", "libxcrypt", _scrypt_crypt)
_reg("scram", scram, secret="saslprep", salt=_S_RAW(0, 64), rounds=_R_LIN(1, 4294967295),
     other={"algs": ["sha-1,sha-256,sha-512", "sha-1", "sha-1,md5", "sha-1,sha-224,sha-384", "md4,sha-1"]}, cost_ms=0.5)
_reg("django_salted_md5", django_salted_md5, salt=dict(type="chars", alphabet=DJANGO_SALT, min=0, max=16), cost_ms=0.02)
_third("django_salted_md5", "django", _dj_md5)
_reg("django_salted_sha1", django_salted_sha1, salt=dict(type="chars", alphabet=DJANGO_SALT, min=0, max=16),
     cost_ms=0.02)
_reg("django_pbkdf2_sha256", django_pbkdf2_sha256, salt=dict(type="chars", alphabet=DJANGO_SALT, min=1, max=16),
     rounds=_R_LIN(1, 4294967295), cost_ms=0.1)
_third("django_pbkdf2_sha256", "django", _dj_pbkdf2("PBKDF2PasswordHasher"))
_reg("django_pbkdf2_sha1", django_pbkdf2_sha1, salt=dict(type="chars", alphabet=DJANGO_SALT, min=1, max=16),
     rounds=_R_LIN(1, 4294967295), cost_ms=0.1)
_third("django_pbkdf2_sha1", "django", _dj_pbkdf2("PBKDF2SHA1PasswordHasher"))
_reg("django_bcrypt", django_bcrypt, secret="nonul", salt=_S_BCRYPT, rounds=_R_LOG(4, 31),
     ident=["2b", "2a", "2y", "2"], sig=72, cost_ms=2)
_third("django_bcrypt", "django", _dj_bcrypt)
_reg("django_bcrypt_sha256", django_bcrypt_sha256, salt=_S_BCRYPT, rounds=_R_LOG(4, 31),
     ident=["2b", "2a", "2y", "2"], cost_ms=2)
_third("django_bcrypt_sha256", "django", _dj_bcrypt_sha256)
_reg("django_des_crypt", django_des_crypt, secret="nonul", salt=_S_H64(2, 8), sig=8, cost_ms=11)

for _inner in ("md5_crypt", "sha1_crypt", "sha256_crypt", "sha512_crypt", "des_crypt", "bsdi_crypt", "bcrypt"):
    _ax = dict(AXES[_inner])
    _ax = {k: v for k, v in _ax.items()}
    _reg("ldap_" + _inner, _ldap_crypt(REFS[_inner]), **_ax)
    for _party, _fn in THIRD.get(_inner, []):
        _third("ldap_" + _inner, _party, (lambda f: lambda secret, **kw: (lambda r: None if r is None else "{CRYPT}" + r)(f(secret, **kw)))(_fn))

