"""MD4 written out from RFC 1320 (sections 3.1 - 3.5), one step per line.

    md4(data: bytes) -> bytes          16-byte digest
    RFC1320_SUITE                      the test suite of RFC 1320 appendix A.5

The message is padded as a whole (no incremental state), each block is
processed with the 48 steps of the RFC spelled out in the RFC's own
[abcd k s] notation -- structurally unlike passlib.crypto._md4, which keeps
a buffer/count and drives three generic table loops.
"""
from __future__ import annotations

MASK = 0xFFFFFFFF


def _rotl(x, s):
    x &= MASK
    return ((x << s) | (x >> (32 - s))) & MASK


def _f(x, y, z):  # XY v not(X) Z
    return ((x & y) | ((x ^ MASK) & z)) & MASK


def _g(x, y, z):  # XY v XZ v YZ
    return ((x & y) | (x & z) | (y & z)) & MASK


def _h(x, y, z):  # X xor Y xor Z
    return (x ^ y ^ z) & MASK


# RFC 1320 section 3.4: order of the message words and the shifts, per round
ROUND1_K = [0, 1, 2, 3, 4, 5, 6, 7, 8, 9, 10, 11, 12, 13, 14, 15]
ROUND1_S = [3, 7, 11, 19]
ROUND2_K = [0, 4, 8, 12, 1, 5, 9, 13, 2, 6, 10, 14, 3, 7, 11, 15]
ROUND2_S = [3, 5, 9, 13]
ROUND3_K = [0, 8, 4, 12, 2, 10, 6, 14, 1, 9, 5, 13, 3, 11, 7, 15]
ROUND3_S = [3, 9, 11, 15]


def _pad(data):
    """3.1 append padding bits (a single 1 bit, then 0 bits to 448 mod 512); 3.2 append 64-bit length"""
    bit_len = (8 * len(data)) & 0xFFFFFFFFFFFFFFFF
    padded = data + b"\x80"
    while len(padded) % 64 != 56:
        padded += b"\x00"
    # low-order word first, each word low-order byte first
    padded += bit_len.to_bytes(8, "little")
    return padded


def md4(data):
    if not isinstance(data, (bytes, bytearray)):
        raise TypeError("md4 reference expects bytes")
    data = bytes(data)
    padded = _pad(data)
    # 3.3 initialise MD buffer
    a, b, c, d = 0x67452301, 0xEFCDAB89, 0x98BADCFE, 0x10325476
    # 3.4 process message in 16-word blocks
    for offset in range(0, len(padded), 64):
        x = [int.from_bytes(padded[offset + 4 * j : offset + 4 * j + 4], "little") for j in range(16)]
        aa, bb, cc, dd = a, b, c, d
        # Round 1: [abcd k s]: a = (a + F(b,c,d) + X[k]) <<< s
        for i in range(16):
            k, s = ROUND1_K[i], ROUND1_S[i % 4]
            if i % 4 == 0:
                a = _rotl(a + _f(b, c, d) + x[k], s)
            elif i % 4 == 1:
                d = _rotl(d + _f(a, b, c) + x[k], s)
            elif i % 4 == 2:
                c = _rotl(c + _f(d, a, b) + x[k], s)
            else:
                b = _rotl(b + _f(c, d, a) + x[k], s)
        # Round 2: a = (a + G(b,c,d) + X[k] + 5A827999) <<< s
        for i in range(16):
            k, s = ROUND2_K[i], ROUND2_S[i % 4]
            if i % 4 == 0:
                a = _rotl(a + _g(b, c, d) + x[k] + 0x5A827999, s)
            elif i % 4 == 1:
                d = _rotl(d + _g(a, b, c) + x[k] + 0x5A827999, s)
            elif i % 4 == 2:
                c = _rotl(c + _g(d, a, b) + x[k] + 0x5A827999, s)
            else:
                b = _rotl(b + _g(c, d, a) + x[k] + 0x5A827999, s)
        # Round 3: a = (a + H(b,c,d) + X[k] + 6ED9EBA1) <<< s
        for i in range(16):
            k, s = ROUND3_K[i], ROUND3_S[i % 4]
            if i % 4 == 0:
                a = _rotl(a + _h(b, c, d) + x[k] + 0x6ED9EBA1, s)
            elif i % 4 == 1:
                d = _rotl(d + _h(a, b, c) + x[k] + 0x6ED9EBA1, s)
            elif i % 4 == 2:
                c = _rotl(c + _h(d, a, b) + x[k] + 0x6ED9EBA1, s)
            else:
                b = _rotl(b + _h(c, d, a) + x[k] + 0x6ED9EBA1, s)
        a = (a + aa) & MASK
        b = (b + bb) & MASK
        c = (c + cc) & MASK
        d = (d + dd) & MASK
    # 3.5 output: A, B, C, D, low-order byte of A first
    return b"".join(v.to_bytes(4, "little") for v in (a, b, c, d))


# ---------------------------------------------------------------------------
# the same function in pieces, for messages too long to hold: chaining state after whole blocks, and the final step
# (RFC 1320 3.1 / 3.2: the length appended is the message's bit length modulo 2^64, low-order word first)
# ---------------------------------------------------------------------------
INITIAL_STATE = (0x67452301, 0xEFCDAB89, 0x98BADCFE, 0x10325476)


def md4_absorb(state, data):
    """chaining state after absorbing `data` (a whole number of 64-byte blocks) starting from `state`"""
    if len(data) % 64:
        raise ValueError("whole blocks only")
    a, b, c, d = state
    for offset in range(0, len(data), 64):
        x = [int.from_bytes(data[offset + 4 * j : offset + 4 * j + 4], "little") for j in range(16)]
        aa, bb, cc, dd = a, b, c, d
        for i in range(16):
            k, s = ROUND1_K[i], ROUND1_S[i % 4]
            if i % 4 == 0:
                a = _rotl(a + _f(b, c, d) + x[k], s)
            elif i % 4 == 1:
                d = _rotl(d + _f(a, b, c) + x[k], s)
            elif i % 4 == 2:
                c = _rotl(c + _f(d, a, b) + x[k], s)
            else:
                b = _rotl(b + _f(c, d, a) + x[k], s)
        for i in range(16):
            k, s = ROUND2_K[i], ROUND2_S[i % 4]
            if i % 4 == 0:
                a = _rotl(a + _g(b, c, d) + x[k] + 0x5A827999, s)
            elif i % 4 == 1:
                d = _rotl(d + _g(a, b, c) + x[k] + 0x5A827999, s)
            elif i % 4 == 2:
                c = _rotl(c + _g(d, a, b) + x[k] + 0x5A827999, s)
            else:
                b = _rotl(b + _g(c, d, a) + x[k] + 0x5A827999, s)
        for i in range(16):
            k, s = ROUND3_K[i], ROUND3_S[i % 4]
            if i % 4 == 0:
                a = _rotl(a + _h(b, c, d) + x[k] + 0x6ED9EBA1, s)
            elif i % 4 == 1:
                d = _rotl(d + _h(a, b, c) + x[k] + 0x6ED9EBA1, s)
            elif i % 4 == 2:
                c = _rotl(c + _h(d, a, b) + x[k] + 0x6ED9EBA1, s)
            else:
                b = _rotl(b + _h(c, d, a) + x[k] + 0x6ED9EBA1, s)
        a, b, c, d = (a + aa) & MASK, (b + bb) & MASK, (c + cc) & MASK, (d + dd) & MASK
    return (a, b, c, d)


def md4_finish(state, nblocks, tail):
    """digest of a message of `nblocks` whole blocks (already absorbed into `state`) followed by `tail` (< 64 bytes)"""
    if len(tail) >= 64:
        raise ValueError("tail must be shorter than a block")
    bit_len = (nblocks * 512 + 8 * len(tail)) & 0xFFFFFFFFFFFFFFFF
    padded = bytes(tail) + b"\x80"
    while len(padded) % 64 != 56:
        padded += b"\x00"
    padded += bit_len.to_bytes(8, "little")
    return b"".join(v.to_bytes(4, "little") for v in md4_absorb(state, padded))


def md4_hex(data):
    return md4(data).hex()


# RFC 1320 appendix A.5
RFC1320_SUITE = [
    (b"", "31d6cfe0d16ae931b73c59d7e0c089c0"),
    (b"a", "bde52cb31de33e46245e05fbdbd6fb24"),
    (b"abc", "a448017aaf21d8525fc10ae87aa6729d"),
    (b"message digest", "d9130a8164549fe818874806e1c7014b"),
    (b"abcdefghijklmnopqrstuvwxyz", "d79e1c308aa5bbcdeea8ed63df412da9"),
    (b"ABCDEFGHIJKLMNOPQRSTUVWXYZabcdefghijklmnopqrstuvwxyz0123456789", "043f8582f241db351ce627e153e7f0e4"),
    (b"12345678901234567890123456789012345678901234567890123456789012345678901234567890",
     "e33b4ddc9c38f2199c3e7b164fcc0536"),
]


def check_vectors():
    for data, want in RFC1320_SUITE:
        assert md4_hex(data) == want, f"MD4 reference fails RFC 1320 vector {data!r}: {md4_hex(data)}"
    return len(RFC1320_SUITE)
