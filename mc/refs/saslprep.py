"""SASLprep (RFC 4013) = the RFC 3454 "stringprep" procedure with the SASLprep profile,
written step by step from the two RFCs over the stdlib `stringprep` tables.

    saslprep(source: str, param="value") -> str        raises ValueError on prohibited input

RFC 4013:
  2.1 Mapping        C.1.2 (non-ASCII space) -> U+0020; B.1 ("commonly mapped to nothing") -> nothing
  2.2 Normalization  NFKC
  2.3 Prohibited     C.1.2, C.2.1, C.2.2, C.3, C.4, C.5, C.6, C.7, C.8, C.9
  2.4 Bidi           RFC 3454 section 6
  2.5 Unassigned     A.1 (stored strings MUST NOT contain them -- this is the "stored string" form)

RFC 3454 section 6: (1) C.8 prohibited [already in 2.3]; (2) a string containing any
RandALCat (D.1) character must not contain any LCat (D.2) character; (3) and then a
RandALCat character must be the first AND the last character of the string.

The steps are run in the order of RFC 3454 section 2 (map, normalise, prohibit, bidi) on the
whole string, each as a separate pass; `explain(source)` returns which step refused.

Normalisation: RFC 3454 pins Unicode 3.2.  NFKC of a string made of code points assigned in
Unicode 3.2 is stable across Unicode versions (the normalisation stability policy, modulo
the handful of corrigenda code points), so the running interpreter's `unicodedata` is used,
as the task prescribes.  A code point that Unicode 3.2 does not assign can never be part of
an accepted stored string: under Unicode 3.2 NFKC leaves it untouched and step 2.5 refuses
it.  With a *newer* NFKC such a code point may be rewritten into assigned ones before the
A.1 test sees it; to stay faithful to the RFC the reference therefore applies the A.1 test
to the mapped string before normalisation as well as to the output.  (`strict_unassigned=False`
gives the output-only variant.)
"""
from __future__ import annotations

import stringprep
import unicodedata

PROHIBITED = [
    ("C.1.2", stringprep.in_table_c12),
    ("C.2.1", stringprep.in_table_c21),
    ("C.2.2", stringprep.in_table_c22),
    ("C.3", stringprep.in_table_c3),
    ("C.4", stringprep.in_table_c4),
    ("C.5", stringprep.in_table_c5),
    ("C.6", stringprep.in_table_c6),
    ("C.7", stringprep.in_table_c7),
    ("C.8", stringprep.in_table_c8),
    ("C.9", stringprep.in_table_c9),
]


# U+200B ZERO WIDTH SPACE is the one code point listed both in C.1.2 (-> SPACE) and in B.1 (-> nothing);
# RFC 4013 2.1 names both mappings without an order, so both readings are legitimate
# (libidn maps it to SPACE, passlib and several others drop it).  `overlap` selects the reading;
# `acceptable(source)` returns the outcomes of both.
OVERLAP = "\u200b"


class Refused(ValueError):
    def __init__(self, step, msg):
        super().__init__(msg)
        self.step = step


def _run(source, param, strict_unassigned, overlap="nothing"):
    if not isinstance(source, str):
        raise TypeError("saslprep input must be str")
    # ---- 2.1 mapping
    mapped = []
    for ch in source:
        if ch in OVERLAP:
            # listed in C.1.2 *and* in B.1: RFC 4013 does not say which mapping wins
            if overlap == "space":
                mapped.append(" ")
        elif stringprep.in_table_c12(ch):
            mapped.append(" ")
        elif stringprep.in_table_b1(ch):
            continue
        else:
            mapped.append(ch)
    mapped = "".join(mapped)
    if strict_unassigned:
        for ch in mapped:
            if stringprep.in_table_a1(ch):
                raise Refused("A.1", f"unassigned code point U+{ord(ch):04X} in {param}")
    # ---- 2.2 normalisation
    # (RFC 3454 section 4: NFKC of Unicode 3.2 -- five CJK compatibility ideographs were re-mapped by Corrigendum #4 later)
    normal = unicodedata.ucd_3_2_0.normalize("NFKC", mapped)
    # ---- 2.3 prohibited output
    for ch in normal:
        for name, table in PROHIBITED:
            if table(ch):
                raise Refused(name, f"prohibited character U+{ord(ch):04X} (table {name}) in {param}")
    # ---- 2.5 unassigned code points (stored strings)
    for ch in normal:
        if stringprep.in_table_a1(ch):
            raise Refused("A.1", f"unassigned code point U+{ord(ch):04X} in {param}")
    # ---- 2.4 bidirectional characters (RFC 3454 section 6)
    has_ral = any(stringprep.in_table_d1(ch) for ch in normal)
    has_l = any(stringprep.in_table_d2(ch) for ch in normal)
    if has_ral:
        if has_l:
            raise Refused("bidi:RAL+L", f"RandALCat and LCat characters mixed in {param}")
        if not (stringprep.in_table_d1(normal[0]) and stringprep.in_table_d1(normal[-1])):
            raise Refused("bidi:ends", f"RandALCat string must start and end with RandALCat in {param}")
    return normal


def saslprep(source, param="value", strict_unassigned=True, overlap="nothing"):
    return _run(source, param, strict_unassigned, overlap)


def explain(source, strict_unassigned=True, overlap="nothing"):
    """-> ("ok", result) or ("refused", step)"""
    try:
        return "ok", _run(source, "value", strict_unassigned, overlap)
    except Refused as e:
        return "refused", e.step


def acceptable(source, strict_unassigned=True):
    """set of outcomes the RFCs allow: each ("ok", text) or ("refused", None)"""
    out = set()
    for overlap in ("nothing", "space") if OVERLAP in source else ("nothing",):
        kind, val = explain(source, strict_unassigned, overlap)
        out.add((kind, val if kind == "ok" else None))
    return out


# --------------------------------------------------------------------------
# specification vectors: RFC 4013 section 3 examples
# --------------------------------------------------------------------------
RFC4013_EXAMPLES = [
    ("I\u00adX", "IX"),  # 1 SOFT HYPHEN mapped to nothing
    ("user", "user"),  # 2 no transformation
    ("USER", "USER"),  # 3 case preserved
    ("\u00aa", "a"),  # 4 output is NFKC, input in ISO 8859-1
    ("\u2168", "IX"),  # 5 output is NFKC, will match #1
    ("\u0007", None),  # 6 Error - prohibited character
    ("\u0627\u0031", None),  # 7 Error - bidirectional check
]

# further facts stated in the RFC text (tables), each a direct reading of one clause
EXTRA = [
    ("", ""),
    ("a\u00a0b", "a b"),  # C.1.2 -> space
    ("a\u3000b", "a b"),
    ("\u200c", ""),  # B.1
    ("\ufeff\u2060", ""),
    ("\u0627\u0628", "\u0627\u0628"),  # R/AL only
    ("\u0627a\u0628", None),  # RAL + L
    ("\u06271\u0628", "\u06271\u0628"),  # EN between RAL ends is allowed
    ("1\u0627", None),  # RAL not first
    ("\u0627 ", None),  # RAL not last
    ("\u05d0", "\u05d0"),  # single R
    ("\ue000", None),  # C.3 private use
    ("\ufdd0", None),  # C.4 non-character
    ("\ud800", None),  # C.5 surrogate
    ("\ufffd", None),  # C.6 inappropriate for plain text
    ("\u2ff0", None),  # C.7 inappropriate for canonical representation
    ("\u200e", None),  # C.8 change display properties
    ("\U000e0001", None),  # C.9 tagging
    ("\u0080", None),  # C.2.2
    ("\u007f", None),  # C.2.1
    ("\u0221", None),  # A.1 unassigned in Unicode 3.2
    ("\u212b", "\u00c5"),  # NFKC: ANGSTROM SIGN -> A WITH RING
    ("A\u030a", "\u00c5"),  # NFKC composes
    ("\ufb01", "fi"),  # compatibility ligature
]


def check_vectors():
    n = 0
    for src, want in RFC4013_EXAMPLES + EXTRA:
        try:
            got = saslprep(src)
        except ValueError:
            got = None
        assert got == want, f"SASLprep reference fails example {src!r}: {got!r} != {want!r}"
        n += 1
    return n
