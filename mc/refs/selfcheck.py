"""Oracle self-check for the primitive references (run by `python -m mc.selfcheck`).

Every reference must (1) reproduce the vectors of its own specification and (2) agree with
every available third party on a fixed grid.  Any disagreement raises (AssertionError):
a wrong oracle must surface as a broken harness, never as a VIOLATION.

third parties: libxcrypt (legacycrypt.crypt: DES, BSDi, $3$ = NT hash = MD4(UTF-16-LE)),
/root/miniconda/bin/openssl with the legacy provider (DES-ECB, MD4, HMAC-MD4) when present,
stdlib hmac, hashlib.pbkdf2_hmac.
"""
from __future__ import annotations

import hashlib
import hmac as std_hmac
import os
import subprocess
import time

from mc.refs import des as D
from mc.refs import kdf as K
from mc.refs import md4 as M
from mc.refs import saslprep as SP

OPENSSL = "/root/miniconda/bin/openssl"
_PROV = ["-provider", "legacy", "-provider", "default"]


def _fill(tag, n):
    out = b""
    i = 0
    while len(out) < n:
        out += hashlib.sha256(b"selfcheck:%s:%d" % (tag, i)).digest()
        i += 1
    return out[:n]


def _openssl(args, data):
    r = subprocess.run([OPENSSL] + args, input=data, capture_output=True, timeout=60)
    if r.returncode != 0:
        return None
    return r.stdout


def have_openssl():
    if not os.path.exists(OPENSSL):
        return False
    out = _openssl(["enc", "-des-ecb"] + _PROV + ["-nopad", "-K", "133457799BBCDFF1"], bytes.fromhex("0123456789ABCDEF"))
    return out is not None and out.hex().upper() == "85E813540F0AB405"


def _crypt():
    try:
        import legacycrypt
    except ImportError:
        return None
    return legacycrypt.crypt


# ---------------------------------------------------------------------------
def check_des(report):
    n = D.check_vectors()
    report.append(f"des: {n} FIPS/NBS vectors")
    # structural sanity of the typed tables
    assert sorted(D.IP) == list(range(1, 65)) and sorted(D.IP_INV) == list(range(1, 65))
    assert [D.IP_INV[D.IP[i] - 1] for i in range(64)] != [] and all(D.IP[D.IP_INV[i] - 1] == i + 1 for i in range(64))
    assert sorted(D.P) == list(range(1, 33))
    assert sorted(set(D.E)) == list(range(1, 33)) and len(D.E) == 48
    assert len(set(D.PC1)) == 56 and all(t % 8 for t in D.PC1)
    assert len(set(D.PC2)) == 48 and max(D.PC2) <= 56
    assert sum(D.SHIFTS) == 28
    for box in D.S:
        for row in box:
            assert sorted(row) == list(range(16))
    # complementation property and 7/8-byte keys
    for i in range(8):
        k = int.from_bytes(_fill(b"ck%d" % i, 8), "big")
        p = int.from_bytes(_fill(b"cp%d" % i, 8), "big")
        assert D.des_encrypt_int_block(k ^ D.MASK64, p ^ D.MASK64) == D.des_encrypt_int_block(k, p) ^ D.MASK64
        assert D.des_encrypt_int_block(k ^ 0x0101010101010101, p) == D.des_encrypt_int_block(k, p)  # parity ignored
        k7 = _fill(b"k7%d" % i, 7)
        assert D.shrink_des_key(D.expand_des_key(k7)) == k7
        assert D.des_encrypt_block(k7, b"\0" * 8) == D.des_encrypt_block(D.expand_des_key(k7), b"\0" * 8)
        assert D.expand_des_key(int.from_bytes(k7, "big")) == int.from_bytes(D.expand_des_key(k7), "big")
        # rounds = iterated encryption
        two = D.des_encrypt_int_block(k, D.des_encrypt_int_block(k, p))
        assert D.des_encrypt_int_block(k, p, 0, 2) == two
    assert D.expand_des_key(b"\xff" * 7) == b"\xfe" * 8 and D.expand_des_key(b"\x00\x00\x00\x00\x00\x00\x01") == b"\0" * 7 + b"\x02"
    assert D.shrink_des_key(b"\x01" * 8) == b"\0" * 7
    covered = set()
    # ---- openssl DES-ECB
    if have_openssl():
        cnt = 0
        for i in range(10):
            key = _fill(b"ok%d" % i, 8)
            data = _fill(b"od%d" % i, 8 * 24)
            out = _openssl(["enc", "-des-ecb"] + _PROV + ["-nopad", "-K", key.hex()], data)
            assert out is not None and len(out) == len(data), "openssl des-ecb failed"
            for j in range(0, len(data), 8):
                got, trace = D.des_trace(int.from_bytes(key, "big"), int.from_bytes(data[j : j + 8], "big"))
                assert got.to_bytes(8, "big") == out[j : j + 8], f"DES reference != openssl for key {key.hex()} block {data[j:j+8].hex()}"
                covered.update((b, v) for _, _, b, v in trace)
                cnt += 1
        report.append(f"des: {cnt} blocks agree with openssl des-ecb")
    else:
        report.append("des: openssl legacy provider not available (skipped)")
    # ---- libxcrypt: traditional and BSDi extended DES crypt (salted, 25 / n iterations)
    crypt = _crypt()
    if crypt is not None:
        cnt = 0
        h64 = D.H64
        pws = ["", "a", "password", "exactly8", "longer than eight", "\x7f\x01~", "Zz9./", "p\u00e4ssw\u00f6rd"]
        for i, pw in enumerate(pws):
            for j in range(6):
                salt = h64[(i * 11 + j * 7) % 64] + h64[(i * 5 + j * 13 + 1) % 64]
                want = crypt(pw, salt)
                if not want or len(want) != 13:
                    continue
                got = D.crypt_des(pw.encode("utf-8"), salt)
                assert got == want, f"reference des_crypt({pw!r},{salt!r}) = {got}, libxcrypt {want}"
                key = D._password_block_to_key(pw.encode("utf-8")[:8])
                _, trace = D.des_trace(key, 0, D._h64_decode_little(salt), 25)
                covered.update((b, v) for _, _, b, v in trace)
                cnt += 1
        # every single salt bit of the 12-bit salt
        for bit in range(12):
            s = 1 << bit
            salt = h64[s & 63] + h64[s >> 6]
            want = crypt("saltbits", salt)
            if want and len(want) == 13:
                assert D.crypt_des(b"saltbits", salt) == want, f"salt bit {bit}"
                cnt += 1
        assert cnt >= 40, "libxcrypt offers no traditional DES crypt?"
        report.append(f"des: {cnt} des_crypt hashes agree with libxcrypt")
        cnt = 0
        for i, pw in enumerate(["", "a", "password", "a password longer than sixteen chars", "p\u00e4ssw\u00f6rd"]):
            for rounds, salt in ((1, "...."), (2, "salt"), (25, "ZZZZ"), (725, "a.Z/"), (3, "zzzz")):
                mine = D.crypt_bsdi(pw.encode("utf-8"), rounds, salt)
                want = crypt(pw, mine[:9])
                if not want or len(want) != 20:
                    continue
                assert mine == want, f"reference bsdi_crypt({pw!r},{rounds},{salt!r}) = {mine}, libxcrypt {want}"
                cnt += 1
        # every single bit of the 24-bit salt
        for bit in range(24):
            salt = D._h64_encode_little(1 << bit, 4)
            mine = D.crypt_bsdi(b"saltbits", 1, salt)
            want = crypt("saltbits", mine[:9])
            if want and len(want) == 20:
                assert mine == want, f"bsdi salt bit {bit}: {mine} != {want}"
                cnt += 1
        assert cnt >= 30, "libxcrypt offers no BSDi DES crypt?"
        report.append(f"des: {cnt} bsdi_crypt hashes agree with libxcrypt")
    else:
        report.append("des: legacycrypt not importable (skipped)")
    if covered:
        assert len(covered) == 512, f"third-party grid validated only {len(covered)}/512 reference S-box entries"
        report.append("des: all 512 reference S-box entries were exercised by third-party-confirmed blocks")


def check_md4(report):
    n = M.check_vectors()
    report.append(f"md4: {n} RFC 1320 vectors")
    crypt = _crypt()
    if crypt is not None and crypt("", "$3$") == "$3$$31d6cfe0d16ae931b73c59d7e0c089c0":
        cnt = 0
        for length in list(range(0, 72)) + [100, 119, 120, 127, 128, 129, 200, 255]:
            pw = "".join(chr(33 + (i * 7 + length) % 90) for i in range(length))
            want = crypt(pw, "$3$")
            assert want == "$3$$" + M.md4_hex(pw.encode("utf-16-le")), f"MD4 reference != libxcrypt NT hash at length {length}"
            cnt += 1
        pw = "p\u00e4ss\u20acw\u00f6rd"
        # libxcrypt widens every *byte* of the (UTF-8) key to 16 bits: high-bit message bytes
        assert crypt(pw, "$3$") == "$3$$" + M.md4_hex(b"".join(bytes([b, 0]) for b in pw.encode("utf-8")))
        report.append(f"md4: {cnt + 1} NT hashes agree with libxcrypt")
    else:
        report.append("md4: libxcrypt $3$ not available (skipped)")
    if have_openssl():
        cnt = 0
        for length in (0, 1, 55, 56, 57, 63, 64, 65, 119, 120, 121, 127, 128, 129, 300, 1000, 1100):
            data = _fill(b"md4-%d" % length, length)
            out = _openssl(["dgst", "-md4"] + _PROV + ["-binary"], data)
            if out is None:
                break
            assert out == M.md4(data), f"MD4 reference != openssl at length {length}"
            cnt += 1
        report.append(f"md4: {cnt} digests agree with openssl")


def check_kdf(report):
    n = K.check_vectors()
    report.append(f"kdf: {n} RFC 2202/4231/6070/7914 vectors")
    names = [x for x in ("md5", "sha1", "sha224", "sha256", "sha384", "sha512", "sha3_256", "blake2b", "blake2s", "sha512_256")
             if x in hashlib.algorithms_available]
    cnt = 0
    for name in names:
        _, hlen, block = K.digest_info(name)
        for klen in (0, 1, block - 1, block, block + 1, 2 * block):
            key = _fill(b"hk" + name.encode(), klen)
            for mlen in (0, 1, block - 1, block, block + 1):
                msg = _fill(b"hm" + name.encode(), mlen)
                assert K.hmac_ref(name, key, msg) == std_hmac.new(key, msg, name).digest(), (name, klen, mlen)
                cnt += 1
    report.append(f"kdf: {cnt} HMACs agree with stdlib hmac")
    cnt = 0
    for name in names:
        _, hlen, block = K.digest_info(name)
        for rounds in (1, 2, 3, 10):
            for keylen in (1, hlen - 1, hlen, hlen + 1, 2 * hlen, 2 * hlen + 1):
                for pw, salt in ((b"password", b"salt"), (b"", b""), (_fill(b"pp", block + 3), _fill(b"ps", 17))):
                    try:
                        want = hashlib.pbkdf2_hmac(name, pw, salt, rounds, keylen)
                    except ValueError:
                        continue
                    assert K.pbkdf2_ref(name, pw, salt, rounds, keylen) == want, (name, rounds, keylen)
                    cnt += 1
            # PBKDF1 is an iterated hash by definition
            t = b"secret" + b"NaCl"
            for _ in range(rounds):
                t = hashlib.new(name, t).digest()
            assert K.pbkdf1_ref(name, b"secret", b"NaCl", rounds, hlen) == t
            assert K.pbkdf1_ref(name, b"secret", b"NaCl", rounds, 3) == t[:3]
        try:
            K.pbkdf1_ref(name, b"a", b"b", 1, hlen + 1)
        except ValueError:
            pass
        else:
            raise AssertionError("pbkdf1_ref accepts keylen > hLen")
    report.append(f"kdf: {cnt} PBKDF2 keys agree with hashlib.pbkdf2_hmac")
    # HMAC-MD4 / PBKDF over MD4: the reference MD4 is confirmed above; HMAC-MD4 vs openssl when possible
    if have_openssl():
        cnt = 0
        for klen, mlen in ((0, 0), (1, 3), (63, 64), (64, 65), (65, 1), (128, 63)):
            key = _fill(b"h4k", klen)
            msg = _fill(b"h4m", mlen)
            args = ["dgst", "-md4"] + _PROV + ["-binary", "-mac", "HMAC", "-macopt", "hexkey:" + key.hex()]
            if klen == 0:
                continue  # openssl refuses an empty hexkey
            out = _openssl(args, msg)
            if out is None:
                break
            assert out == K.hmac_ref("md4", key, msg), f"HMAC-MD4 reference != openssl (klen {klen}, mlen {mlen})"
            cnt += 1
        report.append(f"kdf: {cnt} HMAC-MD4 values agree with openssl")


def check_saslprep(report):
    import stringprep

    n = SP.check_vectors()
    report.append(f"saslprep: {n} RFC 4013 / RFC 3454 examples")
    overlap = [chr(c) for c in range(0x110000) if stringprep.in_table_c12(chr(c)) and stringprep.in_table_b1(chr(c))]
    assert "".join(overlap) == SP.OVERLAP, f"C.1.2/B.1 overlap is {overlap!r}"
    assert SP.saslprep("a\u200bb", overlap="nothing") == "ab" and SP.saslprep("a\u200bb", overlap="space") == "a b"
    # ASCII printable passes unchanged, ASCII control refused
    for c in range(0x20, 0x7F):
        assert SP.saslprep(chr(c)) == chr(c)
    for c in list(range(0, 0x20)) + [0x7F]:
        try:
            SP.saslprep(chr(c))
        except ValueError:
            continue
        raise AssertionError(f"saslprep reference accepts control U+{c:04X}")
    # idempotent on accepted output
    for s in ("\u2168\u00aa", "\u0627\u00a0\u0628", "x\u00ady", "\ufb01\u2126"):
        once = SP.saslprep(s)
        assert SP.saslprep(once) == once


def main():
    t0 = time.time()
    report = []
    check_des(report)
    check_md4(report)
    check_kdf(report)
    check_saslprep(report)
    for line in report:
        print("  refs:", line)
    print(f"  refs: selfcheck passed in {time.time() - t0:.1f}s")
    # complete hash-string references (mc.refs.formats): published vectors + third-party grid
    from mc.refs import selfcheck_formats

    selfcheck_formats.main()
    return 0


if __name__ == "__main__":
    main()
