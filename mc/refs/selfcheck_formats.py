"""Oracle self-check for mc.refs.formats (run by setup / `python -m mc.refs.selfcheck_formats`).

1. VECTORS: every format reference must reproduce the published known-answer vectors.  The table
   was copied once from the `known_correct_hashes` lists of /repo/tests/test_handlers*.py at the pinned
   commit (they are the vectors of the respective specifications / vendor systems: Drepper's SHA-crypt
   text, OpenBSD/crypt_blowfish bcrypt, John the Ripper samples, ASA 9.6 captures, RFC 5802 ...); the
   settings column is what is visibly encoded in each string.  It is a literal, independent of the tree
   under test.
2. GRID: on a small fixed grid every third party (libxcrypt, bcrypt wheel through libxcrypt, OpenSSL,
   Django) must agree with the reference string-for-string, and mc.refs.des's own crypt(3) assemblies too.
A failure raises core.HarnessError (exit 2): a wrong oracle can never surface as a VIOLATION.
"""
from __future__ import annotations

import sys
import time

from mc import core
from mc.core import HarnessError
from mc.refs import formats as F

# (format, secret, settings, context, published hash)
VECTORS = [
    ('bsdi_crypt', 'U*U*U*U*', {'salt': 'CCCC', 'rounds': 725}, {}, '_J9..CCCCXBrJUJV154M'),
    ('bsdi_crypt', 'U*U***U', {'salt': 'CCCC', 'rounds': 725}, {}, '_J9..CCCCXUhOBTXzaiE'),
    ('bsdi_crypt', 'U*U***U*', {'salt': 'CCCC', 'rounds': 725}, {}, '_J9..CCCC4gQ.mB/PffM'),
    ('bsdi_crypt', '*U*U*U*U', {'salt': 'XXXX', 'rounds': 725}, {}, '_J9..XXXXvlzQGqpPPdk'),
    ('bsdi_crypt', '*U*U*U*U*', {'salt': 'XXXX', 'rounds': 725}, {}, '_J9..XXXXsqM/YSSP..Y'),
    ('bsdi_crypt', '*U*U*U*U*U*U*U*U', {'salt': 'XXXX', 'rounds': 725}, {}, '_J9..XXXXVL7qJCnku0I'),
    ('bsdi_crypt', '*U*U*U*U*U*U*U*U*', {'salt': 'XXXX', 'rounds': 725}, {}, '_J9..XXXXAj8cFbP5scI'),
    ('bsdi_crypt', 'ab1234567', {'salt': 'SDiz', 'rounds': 725}, {}, '_J9..SDizh.vll5VED9g'),
    ('bsdi_crypt', 'cr1234567', {'salt': 'SDiz', 'rounds': 725}, {}, '_J9..SDizRjWQ/zePPHc'),
    ('bsdi_crypt', 'zxyDPWgydbQjgq', {'salt': 'SDiz', 'rounds': 725}, {}, '_J9..SDizxmRI1GjnQuE'),
    ('bsdi_crypt', '726 even', {'salt': 'Salt', 'rounds': 726}, {}, '_K9..SaltNrQgIYUAeoY'),
    ('bsdi_crypt', '', {'salt': 'SDSD', 'rounds': 725}, {}, '_J9..SDSD5YGyRCr4W4c'),
    ('bsdi_crypt', ' ', {'salt': 'crsm', 'rounds': 214}, {}, '_K1..crsmZxOLzfJH8iw'),
    ('bsdi_crypt', 'my', {'salt': 'crsm', 'rounds': 5974}, {}, '_KR/.crsmykRplHbAvwA'),
    ('bsdi_crypt', 'my socra', {'salt': 'crsm', 'rounds': 214}, {}, '_K1..crsmf/9NzZr1fLM'),
    ('bsdi_crypt', 'my socrates', {'salt': 'crsm', 'rounds': 214}, {}, '_K1..crsmOv1rbde9A9o'),
    ('bsdi_crypt', 'my socrates note', {'salt': 'crsm', 'rounds': 214}, {}, '_K1..crsm/2qeAhdISMA'),
    ('bsdi_crypt', 'táБℓə', {'salt': 'ABw0', 'rounds': 5001}, {}, '_7C/.ABw0WIKy0ILVqo2'),
    ('des_crypt', 'U*U*U*U*', {'salt': 'CC'}, {}, 'CCNf8Sbh3HDfQ'),
    ('des_crypt', 'U*U***U', {'salt': 'CC'}, {}, 'CCX.K.MFy4Ois'),
    ('des_crypt', 'U*U***U*', {'salt': 'CC'}, {}, 'CC4rMpbg9AMZ.'),
    ('des_crypt', '*U*U*U*U', {'salt': 'XX'}, {}, 'XXxzOu6maQKqQ'),
    ('des_crypt', '', {'salt': 'SD'}, {}, 'SDbsugeBiC58A'),
    ('des_crypt', '', {'salt': 'Og'}, {}, 'OgAwTx2l6NADI'),
    ('des_crypt', ' ', {'salt': '/H'}, {}, '/Hk.VPuwQTXbc'),
    ('des_crypt', 'test', {'salt': 'N1'}, {}, 'N1tQbOFcM5fpg'),
    ('des_crypt', 'Compl3X AlphaNu3meric', {'salt': 'um'}, {}, 'um.Wguz3eVCx2'),
    ('des_crypt', '4lpHa N|_|M3r1K W/ Cur5Es: #$%(*)(*%#', {'salt': 'sN'}, {}, 'sNYqfOyauIyic'),
    ('des_crypt', 'AlOtBsOl', {'salt': 'cE'}, {}, 'cEpWz5IUCShqM'),
    ('des_crypt', 'hellÖ', {'salt': 'sa'}, {}, 'saykDgk3BPZ9E'),
    ('ldap_md5_crypt', '', {'salt': 'dOHYPKoP'}, {}, '{CRYPT}$1$dOHYPKoP$tnxS1T8Q6VVn3kpV8cN6o.'),
    ('ldap_md5_crypt', ' ', {'salt': 'm/5ee7ol'}, {}, '{CRYPT}$1$m/5ee7ol$bZn0kIBFipq39e.KDXX8I0'),
    ('ldap_md5_crypt', 'test', {'salt': 'ec6XvcoW'}, {}, '{CRYPT}$1$ec6XvcoW$ghEtNK2U1MC5l.Dwgi3020'),
    ('ldap_md5_crypt', 'Compl3X AlphaNu3meric', {'salt': 'nX1e7EeI'}, {}, '{CRYPT}$1$nX1e7EeI$ljQn72ZUgt6Wxd9hfvHdV0'),
    ('ldap_md5_crypt', '4lpHa N|_|M3r1K W/ Cur5Es: #$%(*)(*%#', {'salt': 'jQS7o98J'}, {}, '{CRYPT}$1$jQS7o98J$V6iTcr71CGgwW2laf17pi1'),
    ('ldap_md5_crypt', 'test', {'salt': 'SuMrG47N'}, {}, '{CRYPT}$1$SuMrG47N$ymvzYjr7QcEQjaK5m1PGx1'),
    ('ldap_md5_crypt', 'táБℓə', {'salt': 'd6/Ky1lU'}, {}, '{CRYPT}$1$d6/Ky1lU$/xpf8m7ftmWLF.TjHCqel0'),
    ('ldap_sha1_crypt', 'password', {'salt': 'c.mcTzCw', 'rounds': 10}, {}, '{CRYPT}$sha1$10$c.mcTzCw$gF8UeYst9yXX7WNZKc5Fjkq0.au7'),
    ('ldap_sha1_crypt', 'táБℓə', {'salt': 'rnqXlOsF', 'rounds': 10}, {}, '{CRYPT}$sha1$10$rnqXlOsF$aGJf.cdRPewJAXo1Rn1BkbaYh0fP'),
    ('md5_crypt', 'U*U*U*U*', {'salt': 'dXc3I7Rw'}, {}, '$1$dXc3I7Rw$ctlgjDdWJLMT.qwHsWhXR1'),
    ('md5_crypt', 'U*U***U', {'salt': 'dXc3I7Rw'}, {}, '$1$dXc3I7Rw$94JPyQc/eAgQ3MFMCoMF.0'),
    ('md5_crypt', 'U*U***U*', {'salt': 'dXc3I7Rw'}, {}, '$1$dXc3I7Rw$is1mVIAEtAhIzSdfn5JOO0'),
    ('md5_crypt', '*U*U*U*U', {'salt': 'eQT9Hwbt'}, {}, '$1$eQT9Hwbt$XtuElNJD.eW5MN5UCWyTQ0'),
    ('md5_crypt', '', {'salt': 'Eu.GHtia'}, {}, '$1$Eu.GHtia$CFkL/nE1BYTlEPiVx1VWX0'),
    ('md5_crypt', '', {'salt': 'dOHYPKoP'}, {}, '$1$dOHYPKoP$tnxS1T8Q6VVn3kpV8cN6o.'),
    ('md5_crypt', ' ', {'salt': 'm/5ee7ol'}, {}, '$1$m/5ee7ol$bZn0kIBFipq39e.KDXX8I0'),
    ('md5_crypt', 'test', {'salt': 'ec6XvcoW'}, {}, '$1$ec6XvcoW$ghEtNK2U1MC5l.Dwgi3020'),
    ('md5_crypt', 'Compl3X AlphaNu3meric', {'salt': 'nX1e7EeI'}, {}, '$1$nX1e7EeI$ljQn72ZUgt6Wxd9hfvHdV0'),
    ('md5_crypt', '4lpHa N|_|M3r1K W/ Cur5Es: #$%(*)(*%#', {'salt': 'jQS7o98J'}, {}, '$1$jQS7o98J$V6iTcr71CGgwW2laf17pi1'),
    ('md5_crypt', 'test', {'salt': 'SuMrG47N'}, {}, '$1$SuMrG47N$ymvzYjr7QcEQjaK5m1PGx1'),
    ('md5_crypt', b'test', {'salt': 'SuMrG47N'}, {}, '$1$SuMrG47N$ymvzYjr7QcEQjaK5m1PGx1'),
    ('md5_crypt', 's', {'salt': 'ssssssss'}, {}, '$1$ssssssss$YgmLTApYTv12qgTwBoj8i/'),
    ('md5_crypt', 'táБℓə', {'salt': 'd6/Ky1lU'}, {}, '$1$d6/Ky1lU$/xpf8m7ftmWLF.TjHCqel0'),
    ('sha1_crypt', 'password', {'salt': 'iVdJqfSE', 'rounds': 19703}, {}, '$sha1$19703$iVdJqfSE$v4qYKl1zqYThwpjJAoKX6UvlHq/a'),
    ('sha1_crypt', 'password', {'salt': 'uV7PTeux', 'rounds': 21773}, {}, '$sha1$21773$uV7PTeux$I9oHnvwPZHMO0Nq6/WgyGV/tDJIH'),
    ('sha1_crypt', 'táБℓə', {'salt': 'uJ3Sp7LE', 'rounds': 40000}, {}, '$sha1$40000$uJ3Sp7LE$.VEmLO5xntyRFYihC7ggd3297T/D'),
    ('sha256_crypt', 'U*U*U*U*', {'salt': 'LKO/Ute40T3FNF95', 'rounds': 5000, 'implicit_rounds': True}, {}, '$5$LKO/Ute40T3FNF95$U0prpBQd4PloSGU0pnpM4z9wKn4vZ1.jsrzQfPqxph9'),
    ('sha256_crypt', 'U*U***U', {'salt': 'LKO/Ute40T3FNF95', 'rounds': 5000, 'implicit_rounds': True}, {}, '$5$LKO/Ute40T3FNF95$fdgfoJEBoMajNxCv3Ru9LyQ0xZgv0OBMQoq80LQ/Qd.'),
    ('sha256_crypt', 'U*U***U*', {'salt': 'LKO/Ute40T3FNF95', 'rounds': 5000, 'implicit_rounds': True}, {}, '$5$LKO/Ute40T3FNF95$8Ry82xGnnPI/6HtFYnvPBTYgOL23sdMXn8C29aO.x/A'),
    ('sha256_crypt', '*U*U*U*U', {'salt': '9mx1HkCz7G1xho50', 'rounds': 5000, 'implicit_rounds': True}, {}, '$5$9mx1HkCz7G1xho50$O7V7YgleJKLUhcfk9pgzdh3RapEaWqMtEp9UUBAKIPA'),
    ('sha256_crypt', '', {'salt': 'kc7lRD1fpYg0g.IP', 'rounds': 5000, 'implicit_rounds': True}, {}, '$5$kc7lRD1fpYg0g.IP$d7CMTcEqJyTXyeq8hTdu/jB/I6DGkoo62NXbHIR7S43'),
    ('sha256_crypt', '', {'salt': 'uy/jIAhCetNCTtb0', 'rounds': 10428, 'implicit_rounds': False}, {}, '$5$rounds=10428$uy/jIAhCetNCTtb0$YWvUOXbkqlqhyoPMpN8BMe.ZGsGx2aBvxTvDFI613c3'),
    ('sha256_crypt', ' ', {'salt': 'I5lNtXtRmf.OoMd8', 'rounds': 10376, 'implicit_rounds': False}, {}, '$5$rounds=10376$I5lNtXtRmf.OoMd8$Ko3AI1VvTANdyKhBPavaRjJzNpSatKU6QVN9uwS9MH.'),
    ('sha256_crypt', 'test', {'salt': 'WH1ABM5sKhxbkgCK', 'rounds': 11858, 'implicit_rounds': False}, {}, '$5$rounds=11858$WH1ABM5sKhxbkgCK$aTQsjPkz0rBsH3lQlJxw9HDTDXPKBxC0LlVeV69P.t1'),
    ('sha256_crypt', 'Compl3X AlphaNu3meric', {'salt': 'o.pwkySLCzwTdmQX', 'rounds': 10350, 'implicit_rounds': False}, {}, '$5$rounds=10350$o.pwkySLCzwTdmQX$nCMVsnF3TXWcBPOympBUUSQi6LGGloZoOsVJMGJ09UB'),
    ('sha256_crypt', '4lpHa N|_|M3r1K W/ Cur5Es: #$%(*)(*%#', {'salt': '9dhlu07dQMRWvTId', 'rounds': 11944, 'implicit_rounds': False}, {}, '$5$rounds=11944$9dhlu07dQMRWvTId$LyUI5VWkGFwASlzntk1RLurxX54LUhgAcJZIt0pYGT7'),
    ('sha256_crypt', 'with unicÖde', {'salt': 'IbG0EuGQXw5EkMdP', 'rounds': 1000, 'implicit_rounds': False}, {}, '$5$rounds=1000$IbG0EuGQXw5EkMdP$LQ5AfPf13KufFsKtmazqnzSGZ4pxtUNw3woQ.ELRDF4'),
    ('sha512_crypt', 'U*U*U*U*', {'salt': 'LKO/Ute40T3FNF95', 'rounds': 5000, 'implicit_rounds': True}, {}, '$6$LKO/Ute40T3FNF95$6S/6T2YuOIHY0N3XpLKABJ3soYcXD9mB7uVbtEZDj/LNscVhZoZ9DEH.sBciDrMsHOWOoASbNLTypH/5X26gN0'),
    ('sha512_crypt', 'U*U***U', {'salt': 'LKO/Ute40T3FNF95', 'rounds': 5000, 'implicit_rounds': True}, {}, '$6$LKO/Ute40T3FNF95$wK80cNqkiAUzFuVGxW6eFe8J.fSVI65MD5yEm8EjYMaJuDrhwe5XXpHDJpwF/kY.afsUs1LlgQAaOapVNbggZ1'),
    ('sha512_crypt', 'U*U***U*', {'salt': 'LKO/Ute40T3FNF95', 'rounds': 5000, 'implicit_rounds': True}, {}, '$6$LKO/Ute40T3FNF95$YS81pp1uhOHTgKLhSMtQCr2cDiUiN03Ud3gyD4ameviK1Zqz.w3oXsMgO6LrqmIEcG3hiqaUqHi/WEE2zrZqa/'),
    ('sha512_crypt', '*U*U*U*U', {'salt': 'OmBOuxFYBZCYAadG', 'rounds': 5000, 'implicit_rounds': True}, {}, '$6$OmBOuxFYBZCYAadG$WCckkSZok9xhp4U1shIZEV7CCVwQUwMVea7L3A77th6SaE9jOPupEMJB.z0vIWCDiN9WLh2m9Oszrj5G.gt330'),
    ('sha512_crypt', '', {'salt': 'ojWH1AiTee9x1peC', 'rounds': 5000, 'implicit_rounds': True}, {}, '$6$ojWH1AiTee9x1peC$QVEnTvRVlPRhcLQCk/HnHaZmlGAAjCfrAN0FtOsOnUk5K5Bn/9eLHHiRzrTzaIKjW9NTLNIBUCtNVOowWS2mN.'),
    ('sha512_crypt', '', {'salt': 'KsvQipYPWpr93wWP', 'rounds': 11021, 'implicit_rounds': False}, {}, '$6$rounds=11021$KsvQipYPWpr93wWP$v7xjI4X6vyVptJjB1Y02vZC5SaSijBkGmq1uJhPr3cvqvvkd42Xvo48yLVPFt8dvhCsnlUgpX.//Cxn91H4qy1'),
    ('sha512_crypt', ' ', {'salt': 'ED9SA4qGmd57Fq2m', 'rounds': 11104, 'implicit_rounds': False}, {}, '$6$rounds=11104$ED9SA4qGmd57Fq2m$q/.PqACDM/JpAHKmr86nkPzzuR5.YpYa8ZJJvI8Zd89ZPUYTJExsFEIuTYbM7gAGcQtTkCEhBKmp1S1QZwaXx0'),
    ('sha512_crypt', 'test', {'salt': 'G/gkPn17kHYo0gTF', 'rounds': 11531, 'implicit_rounds': False}, {}, '$6$rounds=11531$G/gkPn17kHYo0gTF$Kq.uZBHlSBXyzsOJXtxJruOOH4yc0Is13uY7yK0PvAvXxbvc1w8DO1RzREMhKsc82K/Jh8OquV8FZUlreYPJk1'),
    ('sha512_crypt', 'Compl3X AlphaNu3meric', {'salt': 'wakX8nGKEzgJ4Scy', 'rounds': 10787, 'implicit_rounds': False}, {}, '$6$rounds=10787$wakX8nGKEzgJ4Scy$X78uqaX1wYXcSCtS4BVYw2trWkvpa8p7lkAtS9O/6045fK4UB2/Jia0Uy/KzCpODlfVxVNZzCCoV9s2hoLfDs/'),
    ('sha512_crypt', '4lpHa N|_|M3r1K W/ Cur5Es: #$%(*)(*%#', {'salt': '5KXQoE1bztkY5IZr', 'rounds': 11065, 'implicit_rounds': False}, {}, '$6$rounds=11065$5KXQoE1bztkY5IZr$Jf6krQSUKKOlKca4hSW07MSerFFzVIZt/N3rOTsUgKqp7cUdHrwV8MoIVNCk9q9WL3ZRMsdbwNXpVk0gVxKtz1'),
    ('sha512_crypt', 'táБℓə', {'salt': 'PEZTJDiyzV28M3.m', 'rounds': 40000, 'implicit_rounds': False}, {}, '$6$rounds=40000$PEZTJDiyzV28M3.m$GTlnzfzGB44DGd1XqlmC4erAJKCP.rhvLvrYxiT38htrNzVGBnplFOHjejUGVrCfusGWxLQCc3pFO0A/1jYYr0'),
    ('apr_md5_crypt', 'myPassword', {'salt': 'r31.....'}, {}, '$apr1$r31.....$HqJZimcKQFAMYayBlzkrA/'),
    ('apr_md5_crypt', 'táБℓə', {'salt': 'bzYrOHUx'}, {}, '$apr1$bzYrOHUx$a1FcpXuQDJV3vPY20CS6N1'),
    ('bigcrypt', 'passphrase', {'salt': 'qi'}, {}, 'qiyh4XPJGsOZ2MEAyLkfWqeQ'),
    ('bigcrypt', 'This is very long passwd', {'salt': 'f8'}, {}, 'f8.SVpL2fvwjkAnxn8/rgTkwvrif6bjYB5c'),
    ('bigcrypt', 'táБℓə', {'salt': 'SE'}, {}, 'SEChBAyMbMNhgGLyP7kD1HZU'),
    ('bsd_nthash', 'passphrase', {}, {}, '$3$$7f8fe03093cc84b267b109625f6bbf4b'),
    ('bsd_nthash', b'\xc3\xbc', {}, {}, '$3$$8bd6e4fb88e01009818749c5443ea712'),
    ('crypt16', 'passphrase', {'salt': 'qi'}, {}, 'qi8H8R7OM4xMUNMPuRAZxlY.'),
    ('crypt16', 'printf', {'salt': 'aa'}, {}, 'aaCjFz4Sh8Eg2QSqAReePlq6'),
    ('crypt16', 'printf', {'salt': 'AA'}, {}, 'AA/xje2RyeiSU0iBY3PDwjYo'),
    ('crypt16', 'LOLOAQICI82QB4IP', {'salt': '/.'}, {}, '/.FcK3mad6JwYt8LVmDqz9Lc'),
    ('crypt16', 'LOLOAQICI', {'salt': '/.'}, {}, '/.FcK3mad6JwYSaRHJoTPzY2'),
    ('crypt16', 'LOLOAQIC', {'salt': '/.'}, {}, '/.FcK3mad6JwYelhbtlysKy6'),
    ('crypt16', 'L', {'salt': '/.'}, {}, '/.CIu/PzYCkl6elhbtlysKy6'),
    ('crypt16', 'táБℓə', {'salt': 'Ye'}, {}, 'YeDc9tKkkmDvwP7buzpwhoqQ'),
    ('fshp', 'test', {'salt': b'', 'rounds': 1, 'variant': 0}, {}, '{FSHP0|0|1}qUqP5cyxm6YcTAhz05Hph5gvu9M='),
    ('fshp', 'test', {'salt': b'12345678', 'rounds': 4096, 'variant': 1}, {}, '{FSHP1|8|4096}MTIzNDU2NzjTdHcmoXwNc0ff9+ArUHoN0CvlbPZpxFi1C6RDM/MHSA=='),
    ('fshp', 'OrpheanBeholderScryDoubt', {'salt': b'\x19T\x94\x140#v\x1d', 'rounds': 4096, 'variant': 1}, {}, '{FSHP1|8|4096}GVSUFDAjdh0vBosn1GUhzGLHP7BmkbCZVH/3TQqGIjADXpc+6NCg3g=='),
    ('fshp', 'ExecuteOrder66', {'salt': b'\xd1\xa6;\xad\x94>\xfc\xf4~E\xde\x7f#\xdb,D', 'rounds': 8192, 'variant': 3}, {}, '{FSHP3|16|8192}0aY7rZQ+/PR+Rd5/I9ssRM7cjguyT8ibypNaSp/U1uziNO3BVlg5qPUng+zHUDQC3ao/JbzOnIBUtAeWHEy7a2vZeZ7jAwyJJa2EqOsq4Io='),
    ('fshp', 'táБℓə', {'salt': b'\xf6\xfe\xbf\x97r\xee\xfd\xdf[\xcb\x99\xf3\x9e\x93\x92r', 'rounds': 16384, 'variant': 1}, {}, '{FSHP1|16|16384}9v6/l3Lu/d9by5nznpOScqQo8eKu/b/CKli3RCkgYg4nRTgZu5y659YV8cCZ68UL'),
    ('hex_md4', 'password', {}, {}, '8a9d093f14f8701df17732b2bb182c74'),
    ('hex_md4', 'táБℓə', {}, {}, '876078368c47817ce5f9115f3a42cf74'),
    ('hex_md5', 'password', {}, {}, '5f4dcc3b5aa765d61d8327deb882cf99'),
    ('hex_md5', 'táБℓə', {}, {}, '05473f8a19f66815e737b33264a0d0b0'),
    ('hex_sha1', 'password', {}, {}, '5baa61e4c9b93f3f0682250b6cf8331b7ee68fd8'),
    ('hex_sha1', 'táБℓə', {}, {}, 'e059b2628e3a3e2de095679de9822c1d1466e0f0'),
    ('hex_sha256', 'password', {}, {}, '5e884898da28047151d0e56f8dc6292773603d0d6aabbdd62a11ef721d1542d8'),
    ('hex_sha256', 'táБℓə', {}, {}, '6ed729e19bf24d3d20f564375820819932029df05547116cfc2cc868a27b4493'),
    ('hex_sha512', 'password', {}, {}, 'b109f3bbbc244eb82441917ed06d618b9008dd09b3befd1b5e07394c706a8bb980b1d7785e5976ec049b46df5f1326af5a2ea6d103fd07c95385ffab0cacbc86'),
    ('hex_sha512', 'táБℓə', {}, {}, 'd91bb0a23d66dca07a1781fd63ae6a05f6919ee5fc368049f350c9f293b078a18165d66097cf0d89fdfbeed1ad6e7dba2344e57348cd6d51308c843a06f29caf'),
    ('htdigest', 'Circle Of Life', {}, {'user': 'Mufasa', 'realm': 'testrealm@host.com'}, '939e7578ed9e3c518a452acee763bce9'),
    ('htdigest', 'táБℓə', {}, {'user': '€¥$', 'realm': 'Ιωαννης'}, '4dabed2727d583178777fab468dd1f17'),
    ('ldap_md5', 'helloworld', {}, {}, '{MD5}/F4DjTilcDIIVEHn/nAQsA=='),
    ('ldap_md5', 'táБℓə', {}, {}, '{MD5}BUc/ihn2aBXnN7MyZKDQsA=='),
    ('ldap_plaintext', 'password', {}, {}, 'password'),
    ('ldap_plaintext', 'táБℓə', {}, {}, 'táБℓə'),
    ('ldap_plaintext', b't\xc3\xa1\xd0\x91\xe2\x84\x93\xc9\x99', {}, {}, 'táБℓə'),
    ('ldap_salted_md5', 'testing1234', {'salt': b'\xee2yq'}, {}, '{SMD5}UjFY34os/pnZQ3oQOzjqGu4yeXE='),
    ('ldap_salted_md5', 'táБℓə', {'salt': b'\x0b\xc1\x18\x83'}, {}, '{SMD5}Z0ioJ58LlzUeRxm3K6JPGAvBGIM='),
    ('ldap_salted_md5', 'test', {'salt': b'\x8f1\x06\xc0\xf8?\x870'}, {}, '{SMD5}LnuZPJhiaY95/4lmVFpg548xBsD4P4cw'),
    ('ldap_salted_md5', 'test', {'salt': b'\x00`\xec\x1d\xe3\\\xeb=\xa7\xd4\xba\xd7\x9a\x93\x92'}, {}, '{SMD5}XRlncfRzvGi0FDzgR98tUgBg7B3jXOs9p9S615qTkg=='),
    ('ldap_salted_md5', 'test', {'salt': b'\xe9}\x8f\xd1\x9a\xb3\xb6\xb6\x96\xf2>\xc7\x98S\xea='}, {}, '{SMD5}FbAkzOMOxRbMp6Nn4hnZuel9j9Gas7a2lvI+x5hT6j0='),
    ('ldap_salted_sha1', 'testing123', {'salt': b'(X\x89\xab'}, {}, '{SSHA}0c0blFTXXNuAMHECS4uxrj3ZieMoWImr'),
    ('ldap_salted_sha1', 'secret', {'salt': b'\xbc-\xd0{'}, {}, '{SSHA}0H+zTv8o4MR4H43n03eCsvw1luG8LdB7'),
    ('ldap_salted_sha1', 'táБℓə', {'salt': b'\x10b\xccy'}, {}, '{SSHA}3yCSD1nLZXznra4N8XzZgAL+s1sQYsx5'),
    ('ldap_salted_sha1', 'test', {'salt': b'j\x8dq\xce\x19\xe3\x9c\x93'}, {}, '{SSHA}P90+qijSp8MJ1tN25j5o1PflUvlqjXHOGeOckw=='),
    ('ldap_salted_sha1', 'test', {'salt': b'un\r\xc1\x98\x13B\x88\xf1\xde[kmmM'}, {}, '{SSHA}/ZMF5KymNM+uEOjW+9STKlfCFj51bg3BmBNCiPHeW2ttbU0='),
    ('ldap_salted_sha1', 'test', {'salt': b'R\x8a\x91\xd2Z\x8b\xf1^k\xcdYK\xe9\xfd\xdf\xfb'}, {}, '{SSHA}Pfx6Vf48AT9x3FVv8znbo8WQkEVSipHSWovxXmvNWUvp/d/7'),
    ('ldap_salted_sha256', 'password', {'salt': b'\x10Bhm\r!$$'}, {}, '{SSHA256}x1tymSTVjozxQ2PtT46ysrzhZxbcskK0o2f8hEFx7fAQQmhtDSEkJA=='),
    ('ldap_salted_sha256', 'test', {'salt': b'\xa4t\x0e\xc1\xb8\xd7Z\xeb'}, {}, '{SSHA256}xfqc9aOR6z15YaEk3/Ufd7UL9+JozB/1EPmCDTizL0GkdA7BuNda6w=='),
    ('ldap_salted_sha256', 'toomanysecrets', {'salt': b'\x1bcL\xe9}O\xa9\xd5'}, {}, '{SSHA256}RrTKrg6HFXcjJ+eDAq4UtbODxOr9RLeG+I69FoJvutcbY0zpfU+p1Q=='),
    ('ldap_salted_sha256', 'letmèïn', {'salt': b'\x1b#Dh-e\xac\x95'}, {}, '{SSHA256}km7UjUTBZN8a+gf1ND2/qn15N7LsO/jmGYJXvyTfJKAbI0RoLWWslQ=='),
    ('ldap_salted_sha256', 'test', {'salt': b'\xa7\x942&'}, {}, '{SSHA256}TFv2RpwyO0U9mA0Hk8FsXRa1I+4dNUtv27Qa8dzGVLinlDIm'),
    ('ldap_salted_sha256', 'test', {'salt': b'U\x8a\x91\xd2\xbawN)\xa5t.\xc5x/\xa5'}, {}, '{SSHA256}J6MFQdkfjdmXz9UyUPb773kekJdm4dgSL4y8WQEQW11VipHSundOKaV0LsV4L6U='),
    ('ldap_salted_sha256', 'test', {'salt': b'\x7f\x8fQ\xaa\x15\x02 \xa4t\x8e1F\x08!\xc4\xb8'}, {}, '{SSHA256}uBLazLaiBaPb6Cpnvq2XTYDkvXbYIuqRW1anMKk85d1/j1GqFQIgpHSOMUYIIcS4'),
    ('ldap_salted_sha512', 'toomanysecrets', {'salt': b'\x88\x08\te\x8f\xb7\xba\xae'}, {}, '{SSHA512}wExp4xjiCHS0zidJDC4UJq9EEeIebAQPJ1PWSwfhxWjfutI9XiiKuHm2AE41cEFfK+8HyI8bh+ztbczUGsvVFIgICWWPt7qu'),
    ('ldap_salted_sha512', 'letmèïn', {'salt': b',\x00\x9bAL\xa9\x1f\xb7'}, {}, '{SSHA512}mpNUSmZc3TNx+RnPwkIAVMf7ocEKLPrIoQNsg4Eu8dHvyCeb2xzHp5A6n4tF7ntknSvfvRZaJII4ImvNJlYsgiwAm0FMqR+3'),
    ('ldap_salted_sha512', 'password', {'salt': b'\xff_\xcb\x19'}, {}, '{SSHA512}f/lFQskkl7PdMsTGJxHZq8LDt/l+UqRMm6/pj4pV7/xZkcOaKCgvQqp+KCeXc/Vd4RY6vEHWn4y0DnFcQ6wgyv9fyxk='),
    ('ldap_salted_sha512', 'test', {'salt': b'E\xe8\xfd\xff\x7f/\xe5\x1c'}, {}, '{SSHA512}Tgx/uhHnlM9/GgQvI31dN7cheDXg7WypZwaaIkyRsgV/BKIzBG3G/wUd9o1dpi06p3SYzMedg0lvTc3b6CtdO0Xo/f9/L+Uc'),
    ('ldap_salted_sha512', 'test', {'salt': b'\xe0|/\xc5'}, {}, '{SSHA512}Yg9DQ2wURCFGwobu7R2O6cq7nVbnGMPrFCX0aPQ9kj/y1hd6k9PEzkgWCB5aXdPwPzNrVb0PkiHiBnG1CxFiT+B8L8U='),
    ('ldap_salted_sha512', 'test', {'salt': b"\xe1\xdc\xdb{\x0f\xe1\xdc{\xef\xdd\xfb?'\x84\xd0"}, {}, '{SSHA512}5ecDGWs5RY4xLszUO6hAcl90W3wAozGQoI4Gqj8xSZdcfU1lVEM4aY8s+4xVeLitcn7BO8i7xkzMFWLoxas7SeHc23sP4dx77937PyeE0A=='),
    ('ldap_salted_sha512', 'test', {'salt': b'<\xa7\x14B\x08\xe1\xfc\x1f#$\x84pnM)%'}, {}, '{SSHA512}6FQv5W47HGg2MFBFZofoiIbO8KRW75Pm51NKoInpthYQQ5ujazHGhVGzrj3JXgA7j0k+UNmkHdbJjdY5xcUHPzynFEII4fwfIySEcG5NKSU='),
    ('ldap_sha1', 'helloworld', {}, {}, '{SHA}at+xg6SiyUovktq1redipHiJpaE='),
    ('ldap_sha1', 'táБℓə', {}, {}, '{SHA}4FmyYo46Pi3glWed6YIsHRRm4PA='),
    ('lmhash', 'OLDPASSWORD', {}, {}, 'c9b81d939d6fd80cd408e6b105741864'),
    ('lmhash', 'NEWPASSWORD', {}, {}, '09eeab5aa415d6e4d408e6b105741864'),
    ('lmhash', 'welcome', {}, {}, 'c23413a8a1e7665faad3b435b51404ee'),
    ('lmhash', '', {}, {}, 'aad3b435b51404eeaad3b435b51404ee'),
    ('lmhash', 'zzZZZzz', {}, {}, 'a5e6066de61c3e35aad3b435b51404ee'),
    ('lmhash', 'passphrase', {}, {}, '855c3697d9979e78ac404c4ba2c66533'),
    ('lmhash', 'Yokohama', {}, {}, '5ecd9236d21095ce7584248b8d2c9f9e'),
    ('lmhash', 'ENCYCLOPÆDIA', {}, {}, 'fed6416bffc9750d48462b9d7aaac065'),
    ('lmhash', 'encyclopædia', {}, {}, 'fed6416bffc9750d48462b9d7aaac065'),
    ('lmhash', 'Æ', {}, {'encoding': None}, '25d8ab4a0659c97aaad3b435b51404ee'),
    ('lmhash', 'Æ', {}, {'encoding': 'cp437'}, '25d8ab4a0659c97aaad3b435b51404ee'),
    ('lmhash', 'Æ', {}, {'encoding': 'latin-1'}, '184eecbbe9991b44aad3b435b51404ee'),
    ('lmhash', 'Æ', {}, {'encoding': 'utf-8'}, '00dd240fcfab20b8aad3b435b51404ee'),
    ('msdcc2', 'test1', {}, {'user': 'test1'}, '607bbe89611e37446e736f7856515bf8'),
    ('msdcc2', 'qerwt', {}, {'user': 'Joe'}, 'e09b38f84ab0be586b730baf61781e30'),
    ('msdcc2', '12345', {}, {'user': 'Joe'}, '6432f517a900b3fc34ffe57f0f346e16'),
    ('msdcc2', '', {}, {'user': 'bin'}, 'c0cbe0313a861062e29f92ede58f9b36'),
    ('msdcc2', 'w00t', {}, {'user': 'nineteen_characters'}, '87136ae0a18b2dafe4a41d555425b2ed'),
    ('msdcc2', 'w00t', {}, {'user': 'eighteencharacters'}, 'fc5df74eca97afd7cd5abb0032496223'),
    ('msdcc2', 'longpassword', {}, {'user': 'twentyXXX_characters'}, 'cfc6a1e33eb36c3d4f84e4c2606623d2'),
    ('msdcc2', 'longpassword', {}, {'user': 'twentyoneX_characters'}, '99ff74cea552799da8769d30b2684bee'),
    ('msdcc2', 'longpassword', {}, {'user': 'twentytwoXX_characters'}, '0a721bdc92f27d7fb23b87a445ec562f'),
    ('msdcc2', 'test2', {}, {'user': 'TEST2'}, 'c6758e5be7fc943d00b97972a8a97620'),
    ('msdcc2', 'test3', {}, {'user': 'test3'}, '360e51304a2d383ea33467ab0b639cc4'),
    ('msdcc2', 'test4', {}, {'user': 'test4'}, '6f79ee93518306f071c47185998566ae'),
    ('msdcc2', 'ü', {}, {'user': 'joe'}, 'bdb80f2c4656a8b8591bd27d39064a54'),
    ('msdcc2', '€€', {}, {'user': 'joe'}, '1e1e20f482ff748038e47d801d0d1bda'),
    ('msdcc2', 'üü', {}, {'user': 'admin'}, '0839e4a07c00f18a8c65cf5b985b9e73'),
    ('msdcc2', 'táБℓə', {}, {'user': 'bob'}, 'cad511dc9edefcf69201da72efb6bb55'),
    ('msdcc', 'Asdf999', {}, {'user': 'sevans'}, 'b1176c2587478785ec1037e5abc916d0'),
    ('msdcc', 'ASDqwe123', {}, {'user': 'jdoe'}, '592cdfbc3f1ef77ae95c75f851e37166'),
    ('msdcc', 'test1', {}, {'user': 'test1'}, '64cd29e36a8431a2b111378564a10631'),
    ('msdcc', 'test2', {}, {'user': 'test2'}, 'ab60bdb4493822b175486810ac2abe63'),
    ('msdcc', 'test3', {}, {'user': 'test3'}, '14dd041848e12fc48c0aa7a416a4a00c'),
    ('msdcc', 'test4', {}, {'user': 'test4'}, 'b945d24866af4b01a6d89b9d932a153c'),
    ('msdcc', '1234qwer!@#$', {}, {'user': 'Administrator'}, '7b69d06ef494621e3f47b9802fe7776d'),
    ('msdcc', 'password', {}, {'user': 'user'}, '2d9f0b052932ad18b87f315641921cda'),
    ('msdcc', '', {}, {'user': 'root'}, '176a4c2bd45ac73687676c2f09045353'),
    ('msdcc', 'test1', {}, {'user': 'TEST1'}, '64cd29e36a8431a2b111378564a10631'),
    ('msdcc', 'okolada', {}, {'user': 'nineteen_characters'}, '290efa10307e36a79b3eebf2a6b29455'),
    ('msdcc', 'ü', {}, {'user': 'ü'}, '48f84e6f73d6d5305f6558a33fa2c9bb'),
    ('msdcc', 'üü', {}, {'user': 'üü'}, '593246a8335cf0261799bda2a2a9c623'),
    ('msdcc', '€€', {}, {'user': 'user'}, '9121790702dda0fa5d353014c334c2ce'),
    ('msdcc', 'táБℓə', {}, {'user': 'bob'}, 'fcb82eb4212865c7ac3503156ca3f349'),
    ('mssql2000', 'Test', {'salt': b'4v}\\'}, {}, '0x010034767D5C0CFA5FDCA28C4A56085E65E882E71CB0ED2503412FD54D6119FFF04129A1D72E7C3194F7284A7F3A'),
    ('mssql2000', 'TEST', {'salt': b'4v}\\'}, {}, '0x010034767D5C2FD54D6119FFF04129A1D72E7C3194F7284A7F3A2FD54D6119FFF04129A1D72E7C3194F7284A7F3A'),
    ('mssql2000', 'x', {'salt': b'\x86H\x91F'}, {}, '0x010086489146C46DD7318D2514D1AC706457CBF6CD3DF8407F071DB4BBC213939D484BF7A766E974F03C96524794'),
    ('mssql2000', 'AAAA', {'salt': b'\xcfF[{'}, {}, '0x0100CF465B7B12625EF019E157120D58DD46569AC7BF4118455D12625EF019E157120D58DD46569AC7BF4118455D'),
    ('mssql2000', '123', {'salt': b'-`\xba\x07'}, {}, '0x01002D60BA07FE612C8DE537DF3BFCFA49CD9968324481C1A8A8FE612C8DE537DF3BFCFA49CD9968324481C1A8A8'),
    ('mssql2000', '12345', {'salt': b'[ \x05C'}, {}, '0x01005B20054332752E1BC2E7C5DF0F9EBFE486E9BEE063E8D3B332752E1BC2E7C5DF0F9EBFE486E9BEE063E8D3B3'),
    ('mssql2000', 'foo', {'salt': b'\xa6\x07\xba|'}, {}, '0x0100A607BA7C54A24D17B565C59F1743776A10250F581D482DA8B6D6261460D3F53B279CC6913CE747006A2E3254'),
    ('mssql2000', 'bar', {'salt': b'\x05\x08Q>'}, {}, '0x01000508513EADDF6DB7DDD270CCA288BF097F2FF69CC2DB74FBB9644D6901764F999BAB9ECB80DE578D92E3F80D'),
    ('mssql2000', 'canard', {'salt': b'\x84\x08\xc5#'}, {}, '0x01008408C523CF06DCB237835D701C165E68F9460580132E28ED8BC558D22CEDF8801F4503468A80F9C52A12C0A3'),
    ('mssql2000', 'lapin', {'salt': b'\xbf\x08\x85\x17'}, {}, '0x0100BF088517935FC9183FE39FDEC77539FD5CB52BA5F5761881E5B9638641A79DBF0F1501647EC941F3355440A2'),
    ('mssql2000', '€¥$', {'salt': b'bL\ta'}, {}, '0x0100624C0961B28E39FEE13FD0C35F57B4523F0DA1861C11D5A5B28E39FEE13FD0C35F57B4523F0DA1861C11D5A5'),
    ('mssql2000', 'táБℓə', {'salt': b'\x83\x10B('}, {}, '0x010083104228FAD559BE52477F2131E538BE9734E5C4B0ADEFD7F6D784B03C98585DC634FE2B8CA3A6DFFEC729B4'),
    ('mssql2005', 'TEST', {'salt': b'4v}\\'}, {}, '0x010034767D5C2FD54D6119FFF04129A1D72E7C3194F7284A7F3A'),
    ('mssql2005', 'toto', {'salt': b'@\x86\xce\xb6'}, {}, '0x01004086CEB6BF932BC4151A1AF1F13CD17301D70816A8886908'),
    ('mssql2005', '123', {'salt': b'J3]\xce'}, {}, '0x01004A335DCEDB366D99F564D460B1965B146D6184E4E1025195'),
    ('mssql2005', '123', {'salt': b'\xe1\x1dW?'}, {}, '0x0100E11D573F359629B344990DCD3D53DE82CF8AD6BBA7B638B6'),
    ('mssql2005', 'AAAA', {'salt': b'6\xd7&\xae'}, {}, '0x010036D726AE86834E97F20B198ACD219D60B446AC5E48C54F30'),
    ('mssql2005', 'titi', {'salt': b'@\x86\xce\xb6'}, {}, '0x01004086CEB60ED526885801C23B366965586A43D3DEAC6DD3FD'),
    ('mssql2005', 'foo', {'salt': b'\xa6\x07\xba|'}, {}, '0x0100A607BA7C54A24D17B565C59F1743776A10250F581D482DA8'),
    ('mssql2005', 'bar', {'salt': b'\x05\x08Q>'}, {}, '0x01000508513EADDF6DB7DDD270CCA288BF097F2FF69CC2DB74FB'),
    ('mssql2005', 'canard', {'salt': b'\x84\x08\xc5#'}, {}, '0x01008408C523CF06DCB237835D701C165E68F9460580132E28ED'),
    ('mssql2005', 'lapin', {'salt': b'\xbf\x08\x85\x17'}, {}, '0x0100BF088517935FC9183FE39FDEC77539FD5CB52BA5F5761881'),
    ('mssql2005', 'Test', {'salt': b'4v}\\'}, {}, '0x010034767D5C0CFA5FDCA28C4A56085E65E882E71CB0ED250341'),
    ('mssql2005', 'Test', {'salt': b'\x99;\xf21'}, {}, '0x0100993BF2315F36CC441485B35C4D84687DC02C78B0E680411F'),
    ('mssql2005', 'x', {'salt': b'\x86H\x91F'}, {}, '0x010086489146C46DD7318D2514D1AC706457CBF6CD3DF8407F07'),
    ('mssql2005', 'AAAA', {'salt': b'\xcfF[{'}, {}, '0x0100CF465B7B12625EF019E157120D58DD46569AC7BF4118455D'),
    ('mssql2005', '123', {'salt': b'-`\xba\x07'}, {}, '0x01002D60BA07FE612C8DE537DF3BFCFA49CD9968324481C1A8A8'),
    ('mssql2005', '12345', {'salt': b'[ \x05C'}, {}, '0x01005B20054332752E1BC2E7C5DF0F9EBFE486E9BEE063E8D3B3'),
    ('mssql2005', '€¥$', {'salt': b'bL\ta'}, {}, '0x0100624C0961B28E39FEE13FD0C35F57B4523F0DA1861C11D5A5'),
    ('mssql2005', 'táБℓə', {'salt': b'\x83\x10B('}, {}, '0x010083104228FAD559BE52477F2131E538BE9734E5C4B0ADEFD7'),
    ('mysql323', 'drew', {}, {}, '697a7de87c5390b2'),
    ('mysql323', 'password', {}, {}, '5d2e19393cc5ef67'),
    ('mysql323', 'mypass', {}, {}, '6f8c114b58f2ce9e'),
    ('mysql323', 'táБℓə', {}, {}, '4ef327ca5491c8d7'),
    ('mysql41', 'verysecretpassword', {}, {}, '*2C905879F74F28F8570989947D06A8429FB943E6'),
    ('mysql41', '12345678123456781234567812345678', {}, {}, '*F9F1470004E888963FB466A5452C9CBD9DF6239C'),
    ('mysql41', "' OR 1 /*'", {}, {}, '*97CF7A3ACBE0CA58D5391AC8377B5D9AC11D46D9'),
    ('mysql41', 'mypass', {}, {}, '*6C8989366EAF75BB670AD8EA7A7FC1176A95CEF4'),
    ('mysql41', 'táБℓə', {}, {}, '*E7AFE21A9CFA2FC9D15D942AE8FB5C240FE5837B'),
    ('nthash', 'OLDPASSWORD', {}, {}, '6677b2c394311355b54f25eec5bfacf5'),
    ('nthash', 'NEWPASSWORD', {}, {}, '256781a62031289d3c2c98c14f1efc8c'),
    ('nthash', '', {}, {}, '31d6cfe0d16ae931b73c59d7e0c089c0'),
    ('nthash', 'tigger', {}, {}, 'b7e0ea9fbffcf6dd83086e905089effd'),
    ('nthash', b'\xc3\xbc', {}, {}, '8bd6e4fb88e01009818749c5443ea712'),
    ('nthash', b'\xc3\xbc\xc3\xbc', {}, {}, 'cc1260adb6985ca749f150c7e0b22063'),
    ('nthash', b'\xe2\x82\xac', {}, {}, '030926b781938db4365d46adc7cfbcb8'),
    ('nthash', b'\xe2\x82\xac\xe2\x82\xac', {}, {}, '682467b963bb4e61943e170a04f7db46'),
    ('nthash', 'passphrase', {}, {}, '7f8fe03093cc84b267b109625f6bbf4b'),
    ('oracle10', 'tiger', {}, {'user': 'scott'}, 'F894844C34402B67'),
    ('oracle10', 'ttTiGGeR', {}, {'user': 'ScO'}, '7AA1A84E31ED7771'),
    ('oracle10', 'd_syspw', {}, {'user': 'SYSTEM'}, '1B9F1F9A5CB9EB31'),
    ('oracle10', 'strat_passwd', {}, {'user': 'strat_user'}, 'AEBEDBB4EFB5225B'),
    ('oracle10', '#95LWEIGHTS', {}, {'user': 'USER'}, '000EA4D72A142E29'),
    ('oracle10', 'CIAO2010', {}, {'user': 'ALFREDO'}, 'EB026A76F0650F7B'),
    ('oracle10', 'GLOUGlou', {}, {'user': 'Bob'}, 'CDC6B483874B875B'),
    ('oracle10', 'GLOUGLOUTER', {}, {'user': 'bOB'}, 'EF1F9139DB2D5279'),
    ('oracle10', 'LONG_MOT_DE_PASSE_OUI', {}, {'user': 'BOB'}, 'EC8147ABB3373D53'),
    ('oracle10', 'táБℓə', {}, {'user': 'System'}, 'B915A853F297B281'),
    ('oracle11', 'abc123', {'salt': '903603F2C52ED1B4D642'}, {}, 'S:5FDAB69F543563582BA57894FE1C1361FB8ED57B903603F2C52ED1B4D642'),
    ('oracle11', 'SyStEm123!@#', {'salt': '82B44D284DDABEC14C42'}, {}, 'S:450F957ECBE075D2FA009BA822A9E28709FBC3DA82B44D284DDABEC14C42'),
    ('oracle11', 'oracle', {'salt': '227B9AB62D94F54E5951'}, {}, 'S:3437FF72BD69E3FB4D10C750B92B8FB90B155E26227B9AB62D94F54E5951'),
    ('oracle11', '11g', {'salt': '9763FCF0D54DA667D4E6'}, {}, 'S:61CE616647A4F7980AFD7C7245261AF25E0AFE9C9763FCF0D54DA667D4E6'),
    ('oracle11', '11g', {'salt': '117654B6700CE7CC71CF'}, {}, 'S:B9E7556F53500C8C78A58F50F24439D79962DE68117654B6700CE7CC71CF'),
    ('oracle11', 'SHAlala', {'salt': '1B7B5F82B7235E9E182C'}, {}, 'S:2BFCFDF5895014EE9BB2B9BA067B01E0389BB5711B7B5F82B7235E9E182C'),
    ('oracle11', 'táБℓə', {'salt': 'ACD422E29142AA4974B0'}, {}, 'S:51586343E429A6DF024B8F242F2E9F8507B1096FACD422E29142AA4974B0'),
    ('phpass', 'test12345', {'salt': 'IQRaTwmf', 'rounds': 11, 'ident': '$P$'}, {}, '$P$9IQRaTwmfeRo7ud9Fh4E2PdI0S3r.L0'),
    ('phpass', 'test1', {'salt': 'aaaaaSXB', 'rounds': 11, 'ident': '$H$'}, {}, '$H$9aaaaaSXBjgypwqm.JsMssPLiS8YQ00'),
    ('phpass', '123456', {'salt': 'PE8jEklg', 'rounds': 11, 'ident': '$H$'}, {}, '$H$9PE8jEklgZhgLmZl5.HYJAzfGCQtzi1'),
    ('phpass', '123456', {'salt': 'pdx7dbOW', 'rounds': 11, 'ident': '$H$'}, {}, '$H$9pdx7dbOW3Nnt32sikrjAxYFjX8XoK1'),
    ('phpass', 'thisisalongertestPW', {'salt': '12345678', 'rounds': 11, 'ident': '$P$'}, {}, '$P$912345678LIjjb6PhecupozNBmDndU0'),
    ('phpass', 'JohnRipper', {'salt': '12345678', 'rounds': 8, 'ident': '$P$'}, {}, '$P$612345678si5M0DDyPpmRCmcltU/YW/'),
    ('phpass', 'JohnRipper', {'salt': '12345678', 'rounds': 9, 'ident': '$H$'}, {}, '$H$712345678WhEyvy1YWzT4647jzeOmo0'),
    ('phpass', 'JohnRipper', {'salt': '12345678', 'rounds': 13, 'ident': '$P$'}, {}, '$P$B12345678L6Lpt4BxNotVIMILOa9u81'),
    ('phpass', '', {'salt': 'JaFQsPzJ', 'rounds': 9, 'ident': '$P$'}, {}, '$P$7JaFQsPzJSuenezefD/3jHgt5hVfNH0'),
    ('phpass', 'compL3X!', {'salt': 'iS0N5L67', 'rounds': 17, 'ident': '$P$'}, {}, '$P$FiS0N5L672xzQx1rt1vgdJQRYKnQM9/'),
    ('phpass', 'táБℓə', {'salt': 'SMy8Vxnf', 'rounds': 9, 'ident': '$P$'}, {}, '$P$7SMy8VxnfsIy2Sxm7fJxDSdil.h7TW.'),
    ('plaintext', '', {}, {}, ''),
    ('plaintext', 'password', {}, {}, 'password'),
    ('plaintext', 'táБℓə', {}, {}, 'táБℓə'),
    ('plaintext', b't\xc3\xa1\xd0\x91\xe2\x84\x93\xc9\x99', {}, {}, 'táБℓə'),
    ('postgres_md5', 'mypass', {}, {'user': 'postgres'}, 'md55fba2ea04fd36069d2574ea71c8efe9d'),
    ('postgres_md5', 'mypass', {}, {'user': 'root'}, 'md540c31989b20437833f697e485811254b'),
    ('postgres_md5', 'testpassword', {}, {'user': 'testuser'}, 'md5d4fc5129cc2c25465a5370113ae9835f'),
    ('postgres_md5', 'táБℓə', {}, {'user': 'postgres'}, 'md5cb9f11283265811ce076db86d18a22d2'),
    ('sun_md5_crypt', 'Gpcs3_adm', {'salt': 'zrdhpMlZ', 'rounds': 0, 'bare_salt': False}, {}, '$md5$zrdhpMlZ$$wBvMOEqbSjU.hu5T2VEP01'),
    ('sun_md5_crypt', 'aa12345678', {'salt': 'vyy8.OVF', 'rounds': 0, 'bare_salt': False}, {}, '$md5$vyy8.OVF$$FY4TWzuauRl4.VQNobqMY.'),
    ('sun_md5_crypt', 'this', {'salt': '3UqYqndY', 'rounds': 0, 'bare_salt': False}, {}, '$md5$3UqYqndY$$6P.aaWOoucxxq.l00SS9k0'),
    ('sun_md5_crypt', 'passwd', {'salt': 'RPgLF6IJ', 'rounds': 0, 'bare_salt': True}, {}, '$md5$RPgLF6IJ$WTvAlUJ7MqH5xak2FMEwS/'),
    ('sun_md5_crypt', 'táБℓə', {'salt': '10VYDzAA', 'rounds': 5000, 'bare_salt': False}, {}, '$md5,rounds=5000$10VYDzAA$$1arAVtMA3trgE1qJ2V0Ez1'),
    ('cisco_asa', 'cisco', {}, {'user': ''}, '2KFQnbNIdI.2KYOU'),
    ('cisco_asa', 'hsc', {}, {'user': ''}, 'YtT8/k6Np8F1yz2c'),
    ('cisco_asa', '', {}, {'user': ''}, '8Ry2YjIyt7RRXU24'),
    ('cisco_asa', 'cisco', {}, {'user': 'john'}, 'hN7LzeyYjw12FSIU'),
    ('cisco_asa', 'cisco', {}, {'user': 'jack'}, '7DrfeZ7cyOj/PslD'),
    ('cisco_asa', 'ripper', {}, {'user': 'alex'}, 'h3mJrcH0901pqX/m'),
    ('cisco_asa', 'cisco', {}, {'user': 'cisco'}, '3USUcOPFUiMCO4Jk'),
    ('cisco_asa', 'cisco', {}, {'user': 'cisco1'}, '3USUcOPFUiMCO4Jk'),
    ('cisco_asa', 'CscFw-ITC!', {}, {'user': 'admcom'}, 'lZt7HSIXw3.QP7.R'),
    ('cisco_asa', 'cangetin', {}, {}, 'TynyB./ftknE77QP'),
    ('cisco_asa', 'cangetin', {}, {'user': 'rramsey'}, 'jgBZqYtsWfGcUKDi'),
    ('cisco_asa', 'phonehome', {}, {'user': 'rharris'}, 'zyIIMSYjiPm0L7a6'),
    ('cisco_asa', 'cangetin', {}, {'user': ''}, 'TynyB./ftknE77QP'),
    ('cisco_asa', 'test1', {}, {}, 'TRPEas6f/aa6JSPL'),
    ('cisco_asa', 'test2', {}, {}, 'OMT6mXmAvGyzrCtp'),
    ('cisco_asa', 'test3', {}, {}, 'gTC7RIy1XJzagmLm'),
    ('cisco_asa', 'test4', {}, {}, 'oWC1WRwqlBlbpf/O'),
    ('cisco_asa', 'password', {}, {}, 'NuLKvvWGg.x9HEKO'),
    ('cisco_asa', '0123456789abcdef', {}, {}, '.7nfVBEIEu4KbF/1'),
    ('cisco_asa', '1234567890123456', {}, {'user': ''}, 'feCkwUGktTCAgIbD'),
    ('cisco_asa', 'watag00s1am', {}, {'user': ''}, 'jMorNbK0514fadBh'),
    ('cisco_asa', 'cisco1', {}, {'user': 'cisco1'}, 'jmINXNH6p1BxUppp'),
    ('cisco_asa', 'táБℓə', {}, {}, 'CaiIvkLMu2TOHXGT'),
    ('cisco_asa', '1234', {}, {'user': ''}, 'RLPMUQ26KL4blgFN'),
    ('cisco_asa', '01234567', {}, {'user': ''}, '0T52THgnYdV1tlOF'),
    ('cisco_asa', '01234567', {}, {'user': '3'}, '.z0dT9Alkdc7EIGS'),
    ('cisco_asa', '01234567', {}, {'user': '36'}, 'CC3Lam53t/mHhoE7'),
    ('cisco_asa', '01234567', {}, {'user': '365'}, '8xPrWpNnBdD2DzdZ'),
    ('cisco_asa', '01234567', {}, {'user': '3333'}, '.z0dT9Alkdc7EIGS'),
    ('cisco_asa', '01234567', {}, {'user': '3636'}, 'CC3Lam53t/mHhoE7'),
    ('cisco_asa', '01234567', {}, {'user': '3653'}, '8xPrWpNnBdD2DzdZ'),
    ('cisco_asa', '01234567', {}, {'user': 'adm'}, 'dfWs2qiao6KD/P2L'),
    ('cisco_asa', '01234567', {}, {'user': 'adma'}, 'dfWs2qiao6KD/P2L'),
    ('cisco_asa', '01234567', {}, {'user': 'admad'}, 'dfWs2qiao6KD/P2L'),
    ('cisco_asa', '01234567', {}, {'user': 'user'}, 'PNZ4ycbbZ0jp1.j1'),
    ('cisco_asa', '01234567', {}, {'user': 'user1234'}, 'PNZ4ycbbZ0jp1.j1'),
    ('cisco_asa', '0123456789ab', {}, {'user': ''}, 'S31BxZOGlAigndcJ'),
    ('cisco_asa', '0123456789ab', {}, {'user': '36'}, 'wFqSX91X5.YaRKsi'),
    ('cisco_asa', '0123456789ab', {}, {'user': '365'}, 'qjgo3kNgTVxExbno'),
    ('cisco_asa', '0123456789ab', {}, {'user': '3333'}, 'mcXPL/vIZcIxLUQs'),
    ('cisco_asa', '0123456789ab', {}, {'user': '3636'}, 'wFqSX91X5.YaRKsi'),
    ('cisco_asa', '0123456789ab', {}, {'user': '3653'}, 'qjgo3kNgTVxExbno'),
    ('cisco_asa', '0123456789ab', {}, {'user': 'user'}, 'f.T4BKdzdNkjxQl7'),
    ('cisco_asa', '0123456789ab', {}, {'user': 'user1234'}, 'f.T4BKdzdNkjxQl7'),
    ('cisco_asa', b't\xc3\xa1ble', {}, {'user': 'user'}, 'Og8fB4NyF0m5Ed9c'),
    ('cisco_asa', b't\xc3\x83\xc2\xa1ble', {}, {'user': 'user'}, 'cMvFC2XVBmK/68yB'),
    ('cisco_asa', '0123456789abc', {}, {'user': ''}, 'eacOpB7vE7ZDukSF'),
    ('cisco_asa', '0123456789abc', {}, {'user': '36'}, 'FRV9JG18UBEgX0.O'),
    ('cisco_asa', '0123456789abc', {}, {'user': '365'}, 'NIwkusG9hmmMy6ZQ'),
    ('cisco_asa', '0123456789abc', {}, {'user': '3333'}, 'NmrkP98nT7RAeKZz'),
    ('cisco_asa', '0123456789abc', {}, {'user': '3636'}, 'FRV9JG18UBEgX0.O'),
    ('cisco_asa', '0123456789abc', {}, {'user': '3653'}, 'NIwkusG9hmmMy6ZQ'),
    ('cisco_asa', '0123456789abc', {}, {'user': 'user'}, '8Q/FZeam5ai1A47p'),
    ('cisco_asa', '0123456789abc', {}, {'user': 'user1234'}, '8Q/FZeam5ai1A47p'),
    ('cisco_asa', '0123456789abcd', {}, {'user': ''}, '6r8888iMxEoPdLp4'),
    ('cisco_asa', '0123456789abcd', {}, {'user': '3'}, 'yxGoujXKPduTVaYB'),
    ('cisco_asa', '0123456789abcd', {}, {'user': '36'}, 'W0jckhnhjnr/DiT/'),
    ('cisco_asa', '0123456789abcd', {}, {'user': '365'}, 'HuVOxfMQNahaoF8u'),
    ('cisco_asa', '0123456789abcd', {}, {'user': '3333'}, 'yxGoujXKPduTVaYB'),
    ('cisco_asa', '0123456789abcd', {}, {'user': '3636'}, 'W0jckhnhjnr/DiT/'),
    ('cisco_asa', '0123456789abcd', {}, {'user': '3653'}, 'HuVOxfMQNahaoF8u'),
    ('cisco_asa', '0123456789abcd', {}, {'user': 'adm'}, 'RtOmSeoCs4AUdZqZ'),
    ('cisco_asa', '0123456789abcd', {}, {'user': 'adma'}, 'RtOmSeoCs4AUdZqZ'),
    ('cisco_asa', '0123456789abcd', {}, {'user': 'user'}, 'rrucwrcM0h25pr.m'),
    ('cisco_asa', '0123456789abcd', {}, {'user': 'user1234'}, 'rrucwrcM0h25pr.m'),
    ('cisco_asa', '0123456789abcde', {}, {'user': ''}, 'al1e0XFIugTYLai3'),
    ('cisco_asa', '0123456789abcde', {}, {'user': '3'}, 'nAZrQoHaL.fgrIqt'),
    ('cisco_asa', '0123456789abcde', {}, {'user': '36'}, '2GxIQ6ICE795587X'),
    ('cisco_asa', '0123456789abcde', {}, {'user': '365'}, 'QmDsGwCRBbtGEKqM'),
    ('cisco_asa', '0123456789abcde', {}, {'user': '3333'}, 'nAZrQoHaL.fgrIqt'),
    ('cisco_asa', '0123456789abcde', {}, {'user': '3636'}, '2GxIQ6ICE795587X'),
    ('cisco_asa', '0123456789abcde', {}, {'user': '3653'}, 'QmDsGwCRBbtGEKqM'),
    ('cisco_asa', '0123456789abcde', {}, {'user': 'adm'}, 'Aj2aP0d.nk62wl4m'),
    ('cisco_asa', '0123456789abcde', {}, {'user': 'adma'}, 'Aj2aP0d.nk62wl4m'),
    ('cisco_asa', '0123456789abcde', {}, {'user': 'user'}, 'etxiXfo.bINJcXI7'),
    ('cisco_asa', '0123456789abcde', {}, {'user': 'user1234'}, 'etxiXfo.bINJcXI7'),
    ('cisco_asa', '0123456789abcdef', {}, {'user': ''}, '.7nfVBEIEu4KbF/1'),
    ('cisco_asa', '0123456789abcdef', {}, {'user': '36'}, 'GhI8.yFSC5lwoafg'),
    ('cisco_asa', '0123456789abcdef', {}, {'user': '365'}, 'KFBI6cNQauyY6h/G'),
    ('cisco_asa', '0123456789abcdef', {}, {'user': '3333'}, 'Ghdi1IlsswgYzzMH'),
    ('cisco_asa', '0123456789abcdef', {}, {'user': '3636'}, 'GhI8.yFSC5lwoafg'),
    ('cisco_asa', '0123456789abcdef', {}, {'user': '3653'}, 'KFBI6cNQauyY6h/G'),
    ('cisco_asa', '0123456789abcdef', {}, {'user': 'user'}, 'IneB.wc9sfRzLPoh'),
    ('cisco_asa', '0123456789abcdef', {}, {'user': 'user1234'}, 'IneB.wc9sfRzLPoh'),
    ('cisco_asa', '0123456789abcdefq', {}, {'user': ''}, 'bKshl.EN.X3CVFRQ'),
    ('cisco_asa', '0123456789abcdefq', {}, {'user': '36'}, 'JAeTXHs0n30svlaG'),
    ('cisco_asa', '0123456789abcdefq', {}, {'user': '365'}, '4fKSSUBHT1ChGqHp'),
    ('cisco_asa', '0123456789abcdefq', {}, {'user': '3333'}, 'USEJbxI6.VY4ecBP'),
    ('cisco_asa', '0123456789abcdefq', {}, {'user': '3636'}, 'JAeTXHs0n30svlaG'),
    ('cisco_asa', '0123456789abcdefq', {}, {'user': '3653'}, '4fKSSUBHT1ChGqHp'),
    ('cisco_asa', '0123456789abcdefq', {}, {'user': 'user'}, '/dwqyD7nGdwSrDwk'),
    ('cisco_asa', '0123456789abcdefq', {}, {'user': 'user1234'}, '/dwqyD7nGdwSrDwk'),
    ('cisco_asa', '0123456789abcdefqwertyuiopa', {}, {'user': ''}, '4wp19zS3OCe.2jt5'),
    ('cisco_asa', '0123456789abcdefqwertyuiopa', {}, {'user': '36'}, 'PjUoGqWBKPyV9qOe'),
    ('cisco_asa', '0123456789abcdefqwertyuiopa', {}, {'user': '365'}, 'bfCy6xFAe5O/gzvM'),
    ('cisco_asa', '0123456789abcdefqwertyuiopa', {}, {'user': '3333'}, 'rd/ZMuGTJFIb2BNG'),
    ('cisco_asa', '0123456789abcdefqwertyuiopa', {}, {'user': '3636'}, 'PjUoGqWBKPyV9qOe'),
    ('cisco_asa', '0123456789abcdefqwertyuiopa', {}, {'user': '3653'}, 'bfCy6xFAe5O/gzvM'),
    ('cisco_asa', '0123456789abcdefqwertyuiopa', {}, {'user': 'user'}, 'zynfWw3UtszxLMgL'),
    ('cisco_asa', '0123456789abcdefqwertyuiopa', {}, {'user': 'user1234'}, 'zynfWw3UtszxLMgL'),
    ('cisco_asa', '0123456789abcdefqwertyuiopas', {}, {'user': ''}, 'W6nbOddI0SutTK7m'),
    ('cisco_asa', '0123456789abcdefqwertyuiopas', {}, {'user': '36'}, 'W6nbOddI0SutTK7m'),
    ('cisco_asa', '0123456789abcdefqwertyuiopas', {}, {'user': '365'}, 'W6nbOddI0SutTK7m'),
    ('cisco_asa', '0123456789abcdefqwertyuiopas', {}, {'user': 'user'}, 'W6nbOddI0SutTK7m'),
    ('cisco_asa', '0123456789abcdefqwertyuiopas', {}, {'user': 'user1234'}, 'W6nbOddI0SutTK7m'),
    ('cisco_asa', '0123456789abcdefqwertyuiopasdfgh', {}, {'user': ''}, '5hPT/iC6DnoBxo6a'),
    ('cisco_asa', '0123456789abcdefqwertyuiopasdfgh', {}, {'user': '36'}, '5hPT/iC6DnoBxo6a'),
    ('cisco_asa', '0123456789abcdefqwertyuiopasdfgh', {}, {'user': '365'}, '5hPT/iC6DnoBxo6a'),
    ('cisco_asa', '0123456789abcdefqwertyuiopasdfgh', {}, {'user': 'user'}, '5hPT/iC6DnoBxo6a'),
    ('cisco_asa', '0123456789abcdefqwertyuiopasdfgh', {}, {'user': 'user1234'}, '5hPT/iC6DnoBxo6a'),
    ('cisco_pix', 'cisco', {}, {'user': ''}, '2KFQnbNIdI.2KYOU'),
    ('cisco_pix', 'hsc', {}, {'user': ''}, 'YtT8/k6Np8F1yz2c'),
    ('cisco_pix', '', {}, {'user': ''}, '8Ry2YjIyt7RRXU24'),
    ('cisco_pix', 'cisco', {}, {'user': 'john'}, 'hN7LzeyYjw12FSIU'),
    ('cisco_pix', 'cisco', {}, {'user': 'jack'}, '7DrfeZ7cyOj/PslD'),
    ('cisco_pix', 'ripper', {}, {'user': 'alex'}, 'h3mJrcH0901pqX/m'),
    ('cisco_pix', 'cisco', {}, {'user': 'cisco'}, '3USUcOPFUiMCO4Jk'),
    ('cisco_pix', 'cisco', {}, {'user': 'cisco1'}, '3USUcOPFUiMCO4Jk'),
    ('cisco_pix', 'CscFw-ITC!', {}, {'user': 'admcom'}, 'lZt7HSIXw3.QP7.R'),
    ('cisco_pix', 'cangetin', {}, {}, 'TynyB./ftknE77QP'),
    ('cisco_pix', 'cangetin', {}, {'user': 'rramsey'}, 'jgBZqYtsWfGcUKDi'),
    ('cisco_pix', 'phonehome', {}, {'user': 'rharris'}, 'zyIIMSYjiPm0L7a6'),
    ('cisco_pix', 'cangetin', {}, {'user': ''}, 'TynyB./ftknE77QP'),
    ('cisco_pix', 'test1', {}, {}, 'TRPEas6f/aa6JSPL'),
    ('cisco_pix', 'test2', {}, {}, 'OMT6mXmAvGyzrCtp'),
    ('cisco_pix', 'test3', {}, {}, 'gTC7RIy1XJzagmLm'),
    ('cisco_pix', 'test4', {}, {}, 'oWC1WRwqlBlbpf/O'),
    ('cisco_pix', 'password', {}, {}, 'NuLKvvWGg.x9HEKO'),
    ('cisco_pix', '0123456789abcdef', {}, {}, '.7nfVBEIEu4KbF/1'),
    ('cisco_pix', '1234567890123456', {}, {'user': ''}, 'feCkwUGktTCAgIbD'),
    ('cisco_pix', 'watag00s1am', {}, {'user': ''}, 'jMorNbK0514fadBh'),
    ('cisco_pix', 'cisco1', {}, {'user': 'cisco1'}, 'jmINXNH6p1BxUppp'),
    ('cisco_pix', 'táБℓə', {}, {}, 'CaiIvkLMu2TOHXGT'),
    ('cisco_pix', '1234', {}, {'user': ''}, 'RLPMUQ26KL4blgFN'),
    ('cisco_pix', '01234567', {}, {'user': ''}, '0T52THgnYdV1tlOF'),
    ('cisco_pix', '01234567', {}, {'user': '3'}, '.z0dT9Alkdc7EIGS'),
    ('cisco_pix', '01234567', {}, {'user': '36'}, 'CC3Lam53t/mHhoE7'),
    ('cisco_pix', '01234567', {}, {'user': '365'}, '8xPrWpNnBdD2DzdZ'),
    ('cisco_pix', '01234567', {}, {'user': '3333'}, '.z0dT9Alkdc7EIGS'),
    ('cisco_pix', '01234567', {}, {'user': '3636'}, 'CC3Lam53t/mHhoE7'),
    ('cisco_pix', '01234567', {}, {'user': '3653'}, '8xPrWpNnBdD2DzdZ'),
    ('cisco_pix', '01234567', {}, {'user': 'adm'}, 'dfWs2qiao6KD/P2L'),
    ('cisco_pix', '01234567', {}, {'user': 'adma'}, 'dfWs2qiao6KD/P2L'),
    ('cisco_pix', '01234567', {}, {'user': 'admad'}, 'dfWs2qiao6KD/P2L'),
    ('cisco_pix', '01234567', {}, {'user': 'user'}, 'PNZ4ycbbZ0jp1.j1'),
    ('cisco_pix', '01234567', {}, {'user': 'user1234'}, 'PNZ4ycbbZ0jp1.j1'),
    ('cisco_pix', '0123456789ab', {}, {'user': ''}, 'S31BxZOGlAigndcJ'),
    ('cisco_pix', '0123456789ab', {}, {'user': '36'}, 'wFqSX91X5.YaRKsi'),
    ('cisco_pix', '0123456789ab', {}, {'user': '365'}, 'qjgo3kNgTVxExbno'),
    ('cisco_pix', '0123456789ab', {}, {'user': '3333'}, 'mcXPL/vIZcIxLUQs'),
    ('cisco_pix', '0123456789ab', {}, {'user': '3636'}, 'wFqSX91X5.YaRKsi'),
    ('cisco_pix', '0123456789ab', {}, {'user': '3653'}, 'qjgo3kNgTVxExbno'),
    ('cisco_pix', '0123456789ab', {}, {'user': 'user'}, 'f.T4BKdzdNkjxQl7'),
    ('cisco_pix', '0123456789ab', {}, {'user': 'user1234'}, 'f.T4BKdzdNkjxQl7'),
    ('cisco_pix', b't\xc3\xa1ble', {}, {'user': 'user'}, 'Og8fB4NyF0m5Ed9c'),
    ('cisco_pix', b't\xc3\x83\xc2\xa1ble', {}, {'user': 'user'}, 'cMvFC2XVBmK/68yB'),
    ('cisco_pix', '0123456789abc', {}, {'user': ''}, 'eacOpB7vE7ZDukSF'),
    ('cisco_pix', '0123456789abc', {}, {'user': '3'}, 'ylJTd/qei66WZe3w'),
    ('cisco_pix', '0123456789abc', {}, {'user': '36'}, 'hDx8QRlUhwd6bU8N'),
    ('cisco_pix', '0123456789abc', {}, {'user': '365'}, 'vYOOtnkh1HXcMrM7'),
    ('cisco_pix', '0123456789abc', {}, {'user': '3333'}, 'ylJTd/qei66WZe3w'),
    ('cisco_pix', '0123456789abc', {}, {'user': '3636'}, 'hDx8QRlUhwd6bU8N'),
    ('cisco_pix', '0123456789abc', {}, {'user': '3653'}, 'vYOOtnkh1HXcMrM7'),
    ('cisco_pix', '0123456789abc', {}, {'user': 'user'}, 'f4/.SALxqDo59mfV'),
    ('cisco_pix', '0123456789abc', {}, {'user': 'user1234'}, 'f4/.SALxqDo59mfV'),
    ('cisco_pix', '0123456789abcd', {}, {'user': ''}, '6r8888iMxEoPdLp4'),
    ('cisco_pix', '0123456789abcd', {}, {'user': '3'}, 'f5lvmqWYj9gJqkIH'),
    ('cisco_pix', '0123456789abcd', {}, {'user': '36'}, 'OJJ1Khg5HeAYBH1c'),
    ('cisco_pix', '0123456789abcd', {}, {'user': '365'}, 'OJJ1Khg5HeAYBH1c'),
    ('cisco_pix', '0123456789abcd', {}, {'user': '3333'}, 'f5lvmqWYj9gJqkIH'),
    ('cisco_pix', '0123456789abcd', {}, {'user': '3636'}, 'OJJ1Khg5HeAYBH1c'),
    ('cisco_pix', '0123456789abcd', {}, {'user': '3653'}, 'OJJ1Khg5HeAYBH1c'),
    ('cisco_pix', '0123456789abcd', {}, {'user': 'adm'}, 'DbPLCFIkHc2SiyDk'),
    ('cisco_pix', '0123456789abcd', {}, {'user': 'adma'}, 'DbPLCFIkHc2SiyDk'),
    ('cisco_pix', '0123456789abcd', {}, {'user': 'user'}, 'WfO2UiTapPkF/FSn'),
    ('cisco_pix', '0123456789abcd', {}, {'user': 'user1234'}, 'WfO2UiTapPkF/FSn'),
    ('cisco_pix', '0123456789abcde', {}, {'user': ''}, 'al1e0XFIugTYLai3'),
    ('cisco_pix', '0123456789abcde', {}, {'user': '3'}, 'lYbwBu.f82OIApQB'),
    ('cisco_pix', '0123456789abcde', {}, {'user': '36'}, 'lYbwBu.f82OIApQB'),
    ('cisco_pix', '0123456789abcde', {}, {'user': '365'}, 'lYbwBu.f82OIApQB'),
    ('cisco_pix', '0123456789abcde', {}, {'user': '3333'}, 'lYbwBu.f82OIApQB'),
    ('cisco_pix', '0123456789abcde', {}, {'user': '3636'}, 'lYbwBu.f82OIApQB'),
    ('cisco_pix', '0123456789abcde', {}, {'user': '3653'}, 'lYbwBu.f82OIApQB'),
    ('cisco_pix', '0123456789abcde', {}, {'user': 'adm'}, 'KgKx1UQvdR/09i9u'),
    ('cisco_pix', '0123456789abcde', {}, {'user': 'adma'}, 'KgKx1UQvdR/09i9u'),
    ('cisco_pix', '0123456789abcde', {}, {'user': 'user'}, 'qLopkenJ4WBqxaZN'),
    ('cisco_pix', '0123456789abcde', {}, {'user': 'user1234'}, 'qLopkenJ4WBqxaZN'),
    ('cisco_pix', '0123456789abcdef', {}, {'user': ''}, '.7nfVBEIEu4KbF/1'),
    ('cisco_pix', '0123456789abcdef', {}, {'user': '36'}, '.7nfVBEIEu4KbF/1'),
    ('cisco_pix', '0123456789abcdef', {}, {'user': '365'}, '.7nfVBEIEu4KbF/1'),
    ('cisco_pix', '0123456789abcdef', {}, {'user': '3333'}, '.7nfVBEIEu4KbF/1'),
    ('cisco_pix', '0123456789abcdef', {}, {'user': '3636'}, '.7nfVBEIEu4KbF/1'),
    ('cisco_pix', '0123456789abcdef', {}, {'user': '3653'}, '.7nfVBEIEu4KbF/1'),
    ('cisco_pix', '0123456789abcdef', {}, {'user': 'user'}, '.7nfVBEIEu4KbF/1'),
    ('cisco_pix', '0123456789abcdef', {}, {'user': 'user1234'}, '.7nfVBEIEu4KbF/1'),
    ('cisco_type7', 'secure ', {'salt': 4}, {}, '04480E051A33490E'),
    ('cisco_type7', 'Its time to go to lunch!', {'salt': 15}, {}, '153B1F1F443E22292D73212D5300194315591954465A0D0B59'),
    ('cisco_type7', 't35t:pa55w0rd', {'salt': 8}, {}, '08351F1B1D431516475E1B54382F'),
    ('cisco_type7', 'hiImTesting:)', {'salt': 2}, {}, '020E0D7206320A325847071E5F5E'),
    ('cisco_type7', 'cisco123', {'salt': 6}, {}, '060506324F41584B56'),
    ('cisco_type7', 'cisco123', {'salt': 15}, {}, '1511021F07257A767B'),
    ('cisco_type7', 'Supe&8ZUbeRp4SS', {'salt': 6}, {}, '06351A3149085123301517391C501918'),
    ('cisco_type7', 'táБℓə', {'salt': 9}, {}, '0958EDC8A9F495F6F8A5FD'),
    ('atlassian_pbkdf2_sha1', 'admin', {'salt': b's\x8cZy4\x0c\xd2U"x\xc4\xb7W\x9b\xe8\x89'}, {}, '{PKCS5S2}c4xaeTQM0lUieMS3V5voiexyX9XhqC2dBd5ecVy60IPksHChwoTAVYFrhsgoq8/p'),
    ('atlassian_pbkdf2_sha1', 'Ιωαννης', {'salt': b'pOX\xab\xa0&\xe6\xd4\x06tt\x87\x86L\xb6\\'}, {}, '{PKCS5S2}cE9Yq6Am5tQGdHSHhky2XLeOnURwzaLBG2sur7FHKpvy2u0qDn6GcVGRjlmJoIUy'),
    ('cta_pbkdf2_sha1', 'hashy the ☃', {'salt': b'g\x12\xb8d\x12B}\x08', 'rounds': 4096}, {}, '$p5k2$1000$ZxK4ZBJCfQg=$jJZVscWtO--p1-xIZl6jhO2LKR0='),
    ('cta_pbkdf2_sha1', 'password', {'salt': b'', 'rounds': 1}, {}, '$p5k2$1$$h1TDLGSw9ST8UMAPeIE13i0t12c='),
    ('cta_pbkdf2_sha1', 'Ιωαννης', {'salt': b'987654321', 'rounds': 17185}, {}, '$p5k2$4321$OTg3NjU0MzIx$jINJrSvZ3LXeIbUdrJkRpN62_WQ='),
    ('dlitz_pbkdf2_sha1', 'cloadm', {'salt': 'exec', 'rounds': 400}, {}, '$p5k2$$exec$r1EWMCMk7Rlv3L/RNcFXviDefYa0hlql'),
    ('dlitz_pbkdf2_sha1', 'gnu', {'salt': 'u9HvcT4d', 'rounds': 12}, {}, '$p5k2$c$u9HvcT4d$Sd1gwSVCLZYAuqZ25piRnbBEoAesaa/g'),
    ('dlitz_pbkdf2_sha1', 'dcl', {'salt': 'tUsch7fU', 'rounds': 13}, {}, '$p5k2$d$tUsch7fU$nqDkaxMDOFBeJsTSfABsyn.PYUXilHwL'),
    ('dlitz_pbkdf2_sha1', 'spam', {'salt': 'H0NX9mT/', 'rounds': 1000}, {}, '$p5k2$3e8$H0NX9mT/$wk/sE8vv6OMKuMaqazCJYDSUhWY9YB2J'),
    ('dlitz_pbkdf2_sha1', 'Ιωαννης', {'salt': 'KosHgqNo', 'rounds': 400}, {}, '$p5k2$$KosHgqNo$9mjN8gqjt02hDoP0c2J0ABtLIwtot8cQ'),
    ('grub_pbkdf2_sha512', 'Ιωαννης', {'salt': b'\xbc\xac\x1c\xec^CA\xc8\xc5\x11\xc5)\x7f\xa8w\xbe\x91\xc2\x81{2\xa3Z>\xcf\\\xa6\xb8\xb2W\xf7Q', 'rounds': 10000}, {}, 'grub.pbkdf2.sha512.10000.BCAC1CEC5E4341C8C511C5297FA877BE91C2817B32A35A3ECF5CA6B8B257F751.6968526A2A5B1AEEE0A29A9E057336B48D388FFB3F600233237223C2104DE1752CEC35B0DD1ED49563398A282C0F471099C2803FBA47C7919CABC43192C68F60'),
    ('grub_pbkdf2_sha512', 'toomanysecrets', {'salt': b'\x9bCk\xb6\x97\x86\x826=\\D\x9b\xbe\xab2&v\x94lc"\x08\xbc\x12\x94\xd5\x1fG\x17J\x9a;\x04\xa7\xe4xY\x86\xcdN\xa7G\x0f\xab\x8f\xe9\xf6\xbdR-\x1f\xc6\xc5\x11\t\xa8Yo\xb7\xadH|D\x93', 'rounds': 10000}, {}, 'grub.pbkdf2.sha512.10000.9B436BB6978682363D5C449BBEAB322676946C632208BC1294D51F47174A9A3B04A7E4785986CD4EA7470FAB8FE9F6BD522D1FC6C51109A8596FB7AD487C4493.0FE5EF169AFFCB67D86E2581B1E251D88C777B98BA2D3256ECC9F765D84956FC5CA5C4B6FD711AA285F0A04DCF4634083F9A20F4B6F339A52FBD6BED618E527B'),
    ('pbkdf2_sha1', 'password', {'salt': b'8\x1f\x9d\xb6t\x84]\x92\xbcS\x97 \xc5O\xc6a', 'rounds': 1212}, {}, '$pbkdf2$1212$OB.dtnSEXZK8U5cgxU/GYQ$y5LKPOplRmok7CZp/aqVDVg8zGI'),
    ('pbkdf2_sha1', 'Ιωαννης', {'salt': b'Lp\xeaj\xdabt\x03ii\xd9Ky7\x8e\x12', 'rounds': 1212}, {}, '$pbkdf2$1212$THDqatpidANpadlLeTeOEg$HV3oi1k5C5LQCgG1BMOL.BX4YZc'),
    ('pbkdf2_sha256', 'password', {'salt': b'\xe2\xf8\xd5\xf3r\xca>43\x93}U#\x814W', 'rounds': 1212}, {}, '$pbkdf2-sha256$1212$4vjV83LKPjQzk31VI4E0Vw$hsYF68OiOUPdDZ1Fg.fJPeq1h/gXXY7acBp9/6c.tmQ'),
    ('pbkdf2_sha256', 'Ιωαννης', {'salt': b'\xdd \x01\x14\x91\x83\xb7(k@\xc5m\xd6\xe0\x01?', 'rounds': 1212}, {}, '$pbkdf2-sha256$1212$3SABFJGDtyhrQMVt1uABPw$WyaUoqCLgvz97s523nF4iuOqZNbp5Nt8do/cuaa7AiI'),
    ('pbkdf2_sha512', 'password', {'salt': b'Dv4\x16\xbd\xc8\x0c\xc4\x95;\xf4Rg&\xf9\xa3', 'rounds': 1212}, {}, '$pbkdf2-sha512$1212$RHY0Fr3IDMSVO/RSZyb5ow$eNLfBK.eVozomMr.1gYa17k9B7KIK25NOEshvhrSX.esqY3s.FvWZViXz4KoLlQI.BzY/YTNJOiKc5gBYFYGww'),
    ('pbkdf2_sha512', 'Ιωαννης', {'salt': b'*F\xef\xa0\xa1\xac\x00\x87\x05\xf0\x8b%\r\x1e\xac\x91', 'rounds': 1212}, {}, '$pbkdf2-sha512$1212$KkbvoKGsAIcF8IslDR6skQ$8be/PRmd88Ps8fmPowCJttH9G3vgxpG.Krjt3KT.NP6cKJ0V4Prarqf.HBwz0dCkJ6xgWnSj2ynXSV7MlvMa8Q'),
    ('scram', 'pencil', {'salt': b'A%\xc2G\xe4:\xb1\xe9<m\xffv', 'rounds': 4096, 'algs': 'sha-1'}, {}, '$scram$4096$QSXCR.Q6sek8bf92$sha-1=HZbuOlKbWl.eR8AfIposuKbhX30'),
    ('scram', 'pencil', {'salt': b'A%\xc2G\xe4:\xb1\xe9<m\xffv', 'rounds': 4096, 'algs': 'sha-1,sha-256,sha-512'}, {}, '$scram$4096$QSXCR.Q6sek8bf92$sha-1=HZbuOlKbWl.eR8AfIposuKbhX30,sha-256=qXUXrlcvnaxxWG00DdRgVioR2gnUpuX5r.3EZ1rdhVY,sha-512=lzgniLFcvglRLS0gt.C4gy.NurS3OIOVRAU1zZOV4P.qFiVFO2/edGQSu/kD1LwdX0SNV/KsPdHSwEl5qRTuZQ'),
    ('scram', 'IX à', {'salt': b'\xd0\x1a#\x04 D\xe8\xfd\xbf7\x86\xd0', 'rounds': 6400, 'algs': 'sha-1'}, {}, '$scram$6400$0BojBCBE6P2/N4bQ$sha-1=YniLes.b8WFMvBhtSACZyyvxeCc'),
    ('scram', 'Ⅸ\u3000à', {'salt': b'\xd0\x1a#\x04 D\xe8\xfd\xbf7\x86\xd0', 'rounds': 6400, 'algs': 'sha-1'}, {}, '$scram$6400$0BojBCBE6P2/N4bQ$sha-1=YniLes.b8WFMvBhtSACZyyvxeCc'),
    ('scram', '\xadIX à', {'salt': b'\xd0\x1a#\x04 D\xe8\xfd\xbf7\x86\xd0', 'rounds': 6400, 'algs': 'sha-1'}, {}, '$scram$6400$0BojBCBE6P2/N4bQ$sha-1=YniLes.b8WFMvBhtSACZyyvxeCc'),
    ('scrypt', '', {'salt': b'', 'rounds': 4, 'ident': '$scrypt$', 'block_size': 1, 'parallelism': 1}, {}, '$scrypt$ln=4,r=1,p=1$$d9ZXYjhleyA7GcpCwYoEl/FrSETjB0ro39/6P+3iFEI'),
    ('scrypt', 'password', {'salt': b'NaCl', 'rounds': 10, 'ident': '$scrypt$', 'block_size': 8, 'parallelism': 16}, {}, '$scrypt$ln=10,r=8,p=16$TmFDbA$/bq+HJ00cgB4VucZDQHp/nxq18vII3gw53N2Y0s3MWI'),
    ('scrypt', 'test', {'salt': b'\xc2XK\xc9y\x8f\xf1\xbewnmM)\x85P\xaa', 'rounds': 8, 'ident': '$scrypt$', 'block_size': 8, 'parallelism': 1}, {}, '$scrypt$ln=8,r=8,p=1$wlhLyXmP8b53bm1NKYVQqg$mTpvG8lzuuDk+DWz8HZIB6Vum6erDuUm0As5yU+VxWA'),
    ('scrypt', 'password', {'salt': b't\xee\x9d\xd3\x1a\x03\xa0\xb4\xf6>\x87\xd0\x1a\x83Pj', 'rounds': 8, 'ident': '$scrypt$', 'block_size': 2, 'parallelism': 1}, {}, '$scrypt$ln=8,r=2,p=1$dO6d0xoDoLT2PofQGoNQag$g/Wf2A0vhHhaJM+addK61QPBthSmYB6uVTtQzh8CM3o'),
    ('scrypt', 'táБℓə', {'salt': b'\x8e1\xa6\xb46\xa6t\x0e\x01@\x08\xc1x\x0fAH', 'rounds': 7, 'ident': '$scrypt$', 'block_size': 8, 'parallelism': 1}, {}, '$scrypt$ln=7,r=8,p=1$jjGmtDamdA4BQAjBeA9BSA$OiWRHhQtpDx7M/793x6UXK14AD512jg/qNm/hkWZG4M'),
    ('scrypt', b't\xc3\xa1\xd0\x91\xe2\x84\x93\xc9\x99', {'salt': b'\x8e1\xa6\xb46\xa6t\x0e\x01@\x08\xc1x\x0fAH', 'rounds': 7, 'ident': '$scrypt$', 'block_size': 8, 'parallelism': 1}, {}, '$scrypt$ln=7,r=8,p=1$jjGmtDamdA4BQAjBeA9BSA$OiWRHhQtpDx7M/793x6UXK14AD512jg/qNm/hkWZG4M'),
    ('scrypt', 'nacl', {'salt': b'\xca\x19\xc3\xf8\x9f\x93r.%d,\x05\x80p\xaeU', 'rounds': 1, 'ident': '$scrypt$', 'block_size': 4, 'parallelism': 2}, {}, '$scrypt$ln=1,r=4,p=2$yhnD+J+Tci4lZCwFgHCuVQ$fAsEWmxSHuC0cHKMwKVFPzrQukgvK09Sj+NueTSxKds'),
    ('bcrypt_sha256', '', {'salt': 'E/e/2AOhqM5W/KJTFQzLce', 'rounds': 5, 'ident': '$2a$', 'version': 1}, {}, '$bcrypt-sha256$2a,5$E/e/2AOhqM5W/KJTFQzLce$F6dYSxOdAEoJZO2eoHUZWZljW/e0TXO'),
    ('bcrypt_sha256', 'password', {'salt': '5Hg1DKFqPE8C2aflZ5vVoe', 'rounds': 5, 'ident': '$2a$', 'version': 1}, {}, '$bcrypt-sha256$2a,5$5Hg1DKFqPE8C2aflZ5vVoe$12BjNE0p7axMg55.Y/mHsYiVuFBDQyu'),
    ('bcrypt_sha256', 'táБℓə', {'salt': '.US1fQ4TQS.ZTz/uJ5Kyn.', 'rounds': 5, 'ident': '$2a$', 'version': 1}, {}, '$bcrypt-sha256$2a,5$.US1fQ4TQS.ZTz/uJ5Kyn.$QNdPDOTKKT5/sovNz1iWg26quOU4Pje'),
    ('bcrypt_sha256', b't\xc3\xa1\xd0\x91\xe2\x84\x93\xc9\x99', {'salt': '.US1fQ4TQS.ZTz/uJ5Kyn.', 'rounds': 5, 'ident': '$2a$', 'version': 1}, {}, '$bcrypt-sha256$2a,5$.US1fQ4TQS.ZTz/uJ5Kyn.$QNdPDOTKKT5/sovNz1iWg26quOU4Pje'),
    ('bcrypt_sha256', 'password', {'salt': '5Hg1DKFqPE8C2aflZ5vVoe', 'rounds': 5, 'ident': '$2b$', 'version': 1}, {}, '$bcrypt-sha256$2b,5$5Hg1DKFqPE8C2aflZ5vVoe$12BjNE0p7axMg55.Y/mHsYiVuFBDQyu'),
    ('bcrypt_sha256', 'táБℓə', {'salt': '.US1fQ4TQS.ZTz/uJ5Kyn.', 'rounds': 5, 'ident': '$2b$', 'version': 1}, {}, '$bcrypt-sha256$2b,5$.US1fQ4TQS.ZTz/uJ5Kyn.$QNdPDOTKKT5/sovNz1iWg26quOU4Pje'),
    ('bcrypt_sha256', 'abc123abc123abc123abc123abc123abc123abc123abc123abc123abc123abc123abc123', {'salt': 'X1g1nh3g0v4h6970O68cxe', 'rounds': 5, 'ident': '$2b$', 'version': 1}, {}, '$bcrypt-sha256$2b,5$X1g1nh3g0v4h6970O68cxe$r/hyEtqJ0teqPEmfTLoZ83ciAI1Q74.'),
    ('bcrypt_sha256', 'abc123abc123abc123abc123abc123abc123abc123abc123abc123abc123abc123abc123qwr', {'salt': 'X1g1nh3g0v4h6970O68cxe', 'rounds': 5, 'ident': '$2b$', 'version': 1}, {}, '$bcrypt-sha256$2b,5$X1g1nh3g0v4h6970O68cxe$021KLEif6epjot5yoxk0m8I0929ohEa'),
    ('bcrypt_sha256', 'abc123abc123abc123abc123abc123abc123abc123abc123abc123abc123abc123abc123xyz', {'salt': 'X1g1nh3g0v4h6970O68cxe', 'rounds': 5, 'ident': '$2b$', 'version': 1}, {}, '$bcrypt-sha256$2b,5$X1g1nh3g0v4h6970O68cxe$7.1kgpHduMGEjvM3fX6e/QCvfn6OKja'),
    ('bcrypt_sha256', '', {'salt': 'E/e/2AOhqM5W/KJTFQzLce', 'rounds': 5, 'ident': '$2b$', 'version': 2}, {}, '$bcrypt-sha256$v=2,t=2b,r=5$E/e/2AOhqM5W/KJTFQzLce$WFPIZKtDDTriqWwlmRFfHiOTeheAZWe'),
    ('bcrypt_sha256', 'password', {'salt': '5Hg1DKFqPE8C2aflZ5vVoe', 'rounds': 5, 'ident': '$2b$', 'version': 2}, {}, '$bcrypt-sha256$v=2,t=2b,r=5$5Hg1DKFqPE8C2aflZ5vVoe$wOK1VFFtS8IGTrGa7.h5fs0u84qyPbS'),
    ('bcrypt_sha256', 'táБℓə', {'salt': '.US1fQ4TQS.ZTz/uJ5Kyn.', 'rounds': 5, 'ident': '$2b$', 'version': 2}, {}, '$bcrypt-sha256$v=2,t=2b,r=5$.US1fQ4TQS.ZTz/uJ5Kyn.$pzzgp40k8reM1CuQb03PvE0IDPQSdV6'),
    ('bcrypt_sha256', b't\xc3\xa1\xd0\x91\xe2\x84\x93\xc9\x99', {'salt': '.US1fQ4TQS.ZTz/uJ5Kyn.', 'rounds': 5, 'ident': '$2b$', 'version': 2}, {}, '$bcrypt-sha256$v=2,t=2b,r=5$.US1fQ4TQS.ZTz/uJ5Kyn.$pzzgp40k8reM1CuQb03PvE0IDPQSdV6'),
    ('bcrypt_sha256', 'abc123abc123abc123abc123abc123abc123abc123abc123abc123abc123abc123abc123', {'salt': 'X1g1nh3g0v4h6970O68cxe', 'rounds': 5, 'ident': '$2b$', 'version': 2}, {}, '$bcrypt-sha256$v=2,t=2b,r=5$X1g1nh3g0v4h6970O68cxe$zu1cloESVFIOsUIo7fCEgkdHaI9SSue'),
    ('bcrypt_sha256', 'abc123abc123abc123abc123abc123abc123abc123abc123abc123abc123abc123abc123qwr', {'salt': 'X1g1nh3g0v4h6970O68cxe', 'rounds': 5, 'ident': '$2b$', 'version': 2}, {}, '$bcrypt-sha256$v=2,t=2b,r=5$X1g1nh3g0v4h6970O68cxe$CBF9csfEdW68xv3DwE6xSULXMtqEFP.'),
    ('bcrypt_sha256', 'abc123abc123abc123abc123abc123abc123abc123abc123abc123abc123abc123abc123xyz', {'salt': 'X1g1nh3g0v4h6970O68cxe', 'rounds': 5, 'ident': '$2b$', 'version': 2}, {}, '$bcrypt-sha256$v=2,t=2b,r=5$X1g1nh3g0v4h6970O68cxe$zC/1UDUG2ofEXB6Onr2vvyFzfhEOS3S'),
    ('bcrypt', 'U*U*U*U*', {'salt': 'c92SVSfjeiCD6F2nAD6y0u', 'rounds': 5, 'ident': '$2a$'}, {}, '$2a$05$c92SVSfjeiCD6F2nAD6y0uBpJDjdRkt0EgeC4/31Rf2LUZbDRDE.O'),
    ('bcrypt', 'U*U***U', {'salt': 'WY62Xk2TXZ7EvVDQ5fmjNu', 'rounds': 5, 'ident': '$2a$'}, {}, '$2a$05$WY62Xk2TXZ7EvVDQ5fmjNu7b0GEzSzUXUh2cllxJwhtOeMtWV3Ujq'),
    ('bcrypt', 'U*U***U*', {'salt': 'Fa0iKV3E2SYVUlMknirWU.', 'rounds': 5, 'ident': '$2a$'}, {}, '$2a$05$Fa0iKV3E2SYVUlMknirWU.CFYGvJ67UwVKI1E2FP6XeLiZGcH3MJi'),
    ('bcrypt', '*U*U*U*U', {'salt': '.WRrXibc1zPgIdRXYfv.4u', 'rounds': 5, 'ident': '$2a$'}, {}, '$2a$05$.WRrXibc1zPgIdRXYfv.4uu6TD1KWf0VnHzq/0imhUhuxSxCyeBs2'),
    ('bcrypt', '', {'salt': 'Otz9agnajgrAe0.kFVF9V.', 'rounds': 5, 'ident': '$2a$'}, {}, '$2a$05$Otz9agnajgrAe0.kFVF9V.tzaStZ2s1s4ZWi/LY4sw2k/MTVFj/IO'),
    ('bcrypt', 'U*U', {'salt': 'CCCCCCCCCCCCCCCCCCCCC.', 'rounds': 5, 'ident': '$2a$'}, {}, '$2a$05$CCCCCCCCCCCCCCCCCCCCC.E5YPO9kmyuRGyh0XouQYb4YMJKvyOeW'),
    ('bcrypt', 'U*U*', {'salt': 'CCCCCCCCCCCCCCCCCCCCC.', 'rounds': 5, 'ident': '$2a$'}, {}, '$2a$05$CCCCCCCCCCCCCCCCCCCCC.VGOzA784oUp/Z0DY336zx7pLYAy0lwK'),
    ('bcrypt', 'U*U*U', {'salt': 'XXXXXXXXXXXXXXXXXXXXXO', 'rounds': 5, 'ident': '$2a$'}, {}, '$2a$05$XXXXXXXXXXXXXXXXXXXXXOAcXxm9kjPGEMsLznoKqmqw7tc8WCx4a'),
    ('bcrypt', '', {'salt': 'CCCCCCCCCCCCCCCCCCCCC.', 'rounds': 5, 'ident': '$2a$'}, {}, '$2a$05$CCCCCCCCCCCCCCCCCCCCC.7uG0VCzI2bS7j6ymqJi9CdcdxiRTWNy'),
    ('bcrypt', '0123456789abcdefghijklmnopqrstuvwxyzABCDEFGHIJKLMNOPQRSTUVWXYZ0123456789chars after 72 are ignored', {'salt': 'abcdefghijklmnopqrstuu', 'rounds': 5, 'ident': '$2a$'}, {}, '$2a$05$abcdefghijklmnopqrstuu5s2v8.iXieOjg/.AySBTTZIIVFJeBui'),
    ('bcrypt', b'\xa3', {'salt': '/OK.fbVrR/bpIqNJ5ianF.', 'rounds': 5, 'ident': '$2a$'}, {}, '$2a$05$/OK.fbVrR/bpIqNJ5ianF.Sa7shbm4.OzKpvFnX1pQLmQW96oUlCq'),
    ('bcrypt', b'\xff\xa3345', {'salt': '/OK.fbVrR/bpIqNJ5ianF.', 'rounds': 5, 'ident': '$2a$'}, {}, '$2a$05$/OK.fbVrR/bpIqNJ5ianF.nRht2l/HRhr6zmCp9vYUvvsqynflf9e'),
    ('bcrypt', b'\xa3ab', {'salt': '/OK.fbVrR/bpIqNJ5ianF.', 'rounds': 5, 'ident': '$2a$'}, {}, '$2a$05$/OK.fbVrR/bpIqNJ5ianF.6IflQkJytoRVc1yuaNtHfiuq.FRlSIS'),
    ('bcrypt', b'\xaa\xaa\xaa\xaa\xaa\xaa\xaa\xaa\xaa\xaa\xaa\xaa\xaa\xaa\xaa\xaa\xaa\xaa\xaa\xaa\xaa\xaa\xaa\xaa\xaa\xaa\xaa\xaa\xaa\xaa\xaa\xaa\xaa\xaa\xaa\xaa\xaa\xaa\xaa\xaa\xaa\xaa\xaa\xaa\xaa\xaa\xaa\xaa\xaa\xaa\xaa\xaa\xaa\xaa\xaa\xaa\xaa\xaa\xaa\xaa\xaa\xaa\xaa\xaa\xaa\xaa\xaa\xaa\xaa\xaa\xaa\xaachars after 72 are ignored as usual', {'salt': '/OK.fbVrR/bpIqNJ5ianF.', 'rounds': 5, 'ident': '$2a$'}, {}, '$2a$05$/OK.fbVrR/bpIqNJ5ianF.swQOIzjOiJ9GHEPuhEkvqrUyvWhEMx6'),
    ('bcrypt', b'\xaaU\xaaU\xaaU\xaaU\xaaU\xaaU\xaaU\xaaU\xaaU\xaaU\xaaU\xaaU\xaaU\xaaU\xaaU\xaaU\xaaU\xaaU\xaaU\xaaU\xaaU\xaaU\xaaU\xaaU\xaaU\xaaU\xaaU\xaaU\xaaU\xaaU\xaaU\xaaU\xaaU\xaaU\xaaU\xaaU', {'salt': '/OK.fbVrR/bpIqNJ5ianF.', 'rounds': 5, 'ident': '$2a$'}, {}, '$2a$05$/OK.fbVrR/bpIqNJ5ianF.R9xrDjiycxMbQE2bp.vgqlYpW5wx2yy'),
    ('bcrypt', b'U\xaa\xffU\xaa\xffU\xaa\xffU\xaa\xffU\xaa\xffU\xaa\xffU\xaa\xffU\xaa\xffU\xaa\xffU\xaa\xffU\xaa\xffU\xaa\xffU\xaa\xffU\xaa\xffU\xaa\xffU\xaa\xffU\xaa\xffU\xaa\xffU\xaa\xffU\xaa\xffU\xaa\xffU\xaa\xffU\xaa\xffU\xaa\xff', {'salt': '/OK.fbVrR/bpIqNJ5ianF.', 'rounds': 5, 'ident': '$2a$'}, {}, '$2a$05$/OK.fbVrR/bpIqNJ5ianF.9tQZzcJfm3uj2NvJ/n5xkhpqLrMpWCe'),
    ('bcrypt', b'\xa3', {'salt': '/OK.fbVrR/bpIqNJ5ianF.', 'rounds': 5, 'ident': '$2y$'}, {}, '$2y$05$/OK.fbVrR/bpIqNJ5ianF.Sa7shbm4.OzKpvFnX1pQLmQW96oUlCq'),
    ('bcrypt', b'\xd1\x91', {'salt': '6bNw2HLQYeqHYyBfLMsv/O', 'rounds': 5, 'ident': '$2y$'}, {}, '$2y$05$6bNw2HLQYeqHYyBfLMsv/OUcZd0LKP39b87nBw3.S2tVZSqiQX6eu'),
    ('bcrypt', '01234567890123456789012345678901234567890123456789012345678901234567890123456789012345678901234567890123456789012345678901234567890123456789012345678901234567890123456789012345678901234567890123456789012345678901234567890123456789012345678901234567890123', {'salt': 'R1lJ2gkNaoPGdafE.H.16.', 'rounds': 4, 'ident': '$2a$'}, {}, '$2a$04$R1lJ2gkNaoPGdafE.H.16.1MKHPvmKwryeulRe225LKProWYwt9Oi'),
    ('bcrypt', '012345678901234567890123456789012345678901234567890123456789012345678901234567890123456789012345678901234567890123456789012345678901234567890123456789012345678901234567890123456789012345678901234567890123456789012345678901234567890123456789012345678901234', {'salt': 'R1lJ2gkNaoPGdafE.H.16.', 'rounds': 4, 'ident': '$2a$'}, {}, '$2a$04$R1lJ2gkNaoPGdafE.H.16.1MKHPvmKwryeulRe225LKProWYwt9Oi'),
    ('bcrypt', '0123456789012345678901234567890123456789012345678901234567890123456789012345678901234567890123456789012345678901234567890123456789012345678901234567890123456789012345678901234567890123456789012345678901234567890123456789012345678901234567890123456789012345', {'salt': 'R1lJ2gkNaoPGdafE.H.16.', 'rounds': 4, 'ident': '$2a$'}, {}, '$2a$04$R1lJ2gkNaoPGdafE.H.16.1MKHPvmKwryeulRe225LKProWYwt9Oi'),
    ('bcrypt', '01234567890123456789012345678901234567890123456789012345678901234567890123456789012345678901234567890123456789012345678901234567890123456789012345678901234567890123456789012345678901234567890123456789012345678901234567890123456789012345678901234567890123456', {'salt': 'R1lJ2gkNaoPGdafE.H.16.', 'rounds': 4, 'ident': '$2a$'}, {}, '$2a$04$R1lJ2gkNaoPGdafE.H.16.1MKHPvmKwryeulRe225LKProWYwt9Oi'),
    ('bcrypt', '', {'salt': 'DCq7YPn5Rq63x1Lad4cll.', 'rounds': 6, 'ident': '$2a$'}, {}, '$2a$06$DCq7YPn5Rq63x1Lad4cll.TV4S6ytwfsfvkgY8jIucDrjc8deX1s.'),
    ('bcrypt', 'a', {'salt': 'k87L/MF28Q673VKh8/cPi.', 'rounds': 10, 'ident': '$2a$'}, {}, '$2a$10$k87L/MF28Q673VKh8/cPi.SUl7MU/rWuSiIDDFayrKk/1tBsSQu4u'),
    ('bcrypt', 'abc', {'salt': 'WvvTPHKwdBJ3uk0Z37EMR.', 'rounds': 10, 'ident': '$2a$'}, {}, '$2a$10$WvvTPHKwdBJ3uk0Z37EMR.hLA2W6N9AEBhEgrAOljy2Ae5MtaSIUi'),
    ('bcrypt', 'abcdefghijklmnopqrstuvwxyz', {'salt': 'fVH8e28OQRj9tqiDXs1e1u', 'rounds': 10, 'ident': '$2a$'}, {}, '$2a$10$fVH8e28OQRj9tqiDXs1e1uxpsjN0c7II7YPKXua2NAKYvM6iQk7dq'),
    ('bcrypt', '~!@#$%^&*()      ~!@#$%^&*()PNBFRD', {'salt': 'LgfYWkbzEvQ4JakH7rOvHe', 'rounds': 10, 'ident': '$2a$'}, {}, '$2a$10$LgfYWkbzEvQ4JakH7rOvHe0y8pHKF9OaFgwUZ2q7W2FFZmZzJYlfS'),
    ('bcrypt', 'táБℓə', {'salt': 'Z17AXnnlpzddNUvnC6cZNO', 'rounds': 5, 'ident': '$2a$'}, {}, '$2a$05$Z17AXnnlpzddNUvnC6cZNOSwMA/8oNiKnHTHTwLlBijfucQQlHjaG'),
    ('bcrypt', 'táБℓə', {'salt': 'Z17AXnnlpzddNUvnC6cZNO', 'rounds': 5, 'ident': '$2b$'}, {}, '$2b$05$Z17AXnnlpzddNUvnC6cZNOSwMA/8oNiKnHTHTwLlBijfucQQlHjaG'),
    ('django_bcrypt_sha256', '', {'salt': '/3OeRpbOf8/l6nPPRdZPp.', 'rounds': 6, 'ident': '$2a$'}, {}, 'bcrypt_sha256$$2a$06$/3OeRpbOf8/l6nPPRdZPp.nRiyYqPobEZGdNRBWihQhiFDh1ws1tu'),
    ('django_bcrypt_sha256', 'lètmein', {'salt': 'NDjSAIcas.EcoxCRiArvT.', 'rounds': 8, 'ident': '$2a$'}, {}, 'bcrypt_sha256$$2a$08$NDjSAIcas.EcoxCRiArvT.MkNiPYVhrsrnJsRkLueZOoV1bsQqlmC'),
    ('django_bcrypt_sha256', 'táБℓə', {'salt': 'kCXUnRFQptGg491siDKNTu', 'rounds': 6, 'ident': '$2a$'}, {}, 'bcrypt_sha256$$2a$06$kCXUnRFQptGg491siDKNTu8RxjBGSjALHRuvhPYNFsa4Ea5d9M48u'),
    ('django_bcrypt_sha256', 'abc123abc123abc123abc123abc123abc123abc123abc123abc123abc123abc123abc123', {'salt': 'Tg/oYyZTyAf.Nb3qSgN61O', 'rounds': 6, 'ident': '$2a$'}, {}, 'bcrypt_sha256$$2a$06$Tg/oYyZTyAf.Nb3qSgN61OySmyXA8FoY4PjGizjE1QSDfuL5MXNni'),
    ('django_bcrypt_sha256', 'abc123abc123abc123abc123abc123abc123abc123abc123abc123abc123abc123abc123qwr', {'salt': 'Tg/oYyZTyAf.Nb3qSgN61O', 'rounds': 6, 'ident': '$2a$'}, {}, 'bcrypt_sha256$$2a$06$Tg/oYyZTyAf.Nb3qSgN61Ocy0BEz1RK6xslSNi8PlaLX2pe7x/KQG'),
    ('django_bcrypt_sha256', 'abc123abc123abc123abc123abc123abc123abc123abc123abc123abc123abc123abc123xyz', {'salt': 'Tg/oYyZTyAf.Nb3qSgN61O', 'rounds': 6, 'ident': '$2a$'}, {}, 'bcrypt_sha256$$2a$06$Tg/oYyZTyAf.Nb3qSgN61OvY2zoRVUa2Pugv2ExVOUT2YmhvxUFUa'),
    ('django_bcrypt', '', {'salt': 'DCq7YPn5Rq63x1Lad4cll.', 'rounds': 6, 'ident': '$2a$'}, {}, 'bcrypt$$2a$06$DCq7YPn5Rq63x1Lad4cll.TV4S6ytwfsfvkgY8jIucDrjc8deX1s.'),
    ('django_bcrypt', 'abcdefghijklmnopqrstuvwxyz', {'salt': 'fVH8e28OQRj9tqiDXs1e1u', 'rounds': 10, 'ident': '$2a$'}, {}, 'bcrypt$$2a$10$fVH8e28OQRj9tqiDXs1e1uxpsjN0c7II7YPKXua2NAKYvM6iQk7dq'),
    ('django_bcrypt', 'táБℓə', {'salt': 'Z17AXnnlpzddNUvnC6cZNO', 'rounds': 5, 'ident': '$2a$'}, {}, 'bcrypt$$2a$05$Z17AXnnlpzddNUvnC6cZNOSwMA/8oNiKnHTHTwLlBijfucQQlHjaG'),
    ('django_des_crypt', 'password', {'salt': 'c2'}, {}, 'crypt$c2$c2M87q...WWcU'),
    ('django_des_crypt', 'password', {'salt': 'c2e86'}, {}, 'crypt$c2e86$c2M87q...WWcU'),
    ('django_des_crypt', 'passwordignoreme', {'salt': 'c2.AZ'}, {}, 'crypt$c2.AZ$c2M87q...WWcU'),
    ('django_des_crypt', '€¥$', {'salt': 'c2e86'}, {}, 'crypt$c2e86$c2hN1Bxd6ZiWs'),
    ('django_des_crypt', 'táБℓə', {'salt': '0.aQs'}, {}, 'crypt$0.aQs$0.wB.TT0Czvlo'),
    ('django_des_crypt', 'hellÖ', {'salt': 'sa'}, {}, 'crypt$sa$saykDgk3BPZ9E'),
    ('django_des_crypt', 'foo', {'salt': 'MNVY.9ajgdvDQ'}, {}, 'crypt$MNVY.9ajgdvDQ$MNVY.9ajgdvDQ'),
    ('django_pbkdf2_sha1', 'not a password', {'salt': 'wz5B6WkasRoF', 'rounds': 10000}, {}, 'pbkdf2_sha1$10000$wz5B6WkasRoF$atJmJ1o+XfJxKq1+Nu1f1i57Z5I='),
    ('django_pbkdf2_sha1', 'táБℓə', {'salt': 'KZKWwvqb8BfL', 'rounds': 10000}, {}, 'pbkdf2_sha1$10000$KZKWwvqb8BfL$rw5pWsxJEU4JrZAQhHTCO+u0f5Y='),
    ('django_pbkdf2_sha256', 'not a password', {'salt': 'kjVJaVz6qsnJ', 'rounds': 10000}, {}, 'pbkdf2_sha256$10000$kjVJaVz6qsnJ$5yPHw3rwJGECpUf70daLGhOrQ5+AMxIJdz1c3bqK1Rs='),
    ('django_pbkdf2_sha256', 'táБℓə', {'salt': 'bEwAfNrH1TlQ', 'rounds': 10000}, {}, 'pbkdf2_sha256$10000$bEwAfNrH1TlQ$OgYUblFNUX1B8GfMqaCYUK/iHyO0pa7STTDdaEJBuY0='),
    ('django_salted_md5', 'password', {'salt': '123abcdef'}, {}, 'md5$123abcdef$c8272612932975ee80e8a35995708e80'),
    ('django_salted_md5', 'test', {'salt': '3OpqnFAHW5CT'}, {}, 'md5$3OpqnFAHW5CT$54b29300675271049a1ebae07b395e20'),
    ('django_salted_md5', '€¥$', {'salt': 'c2e86'}, {}, 'md5$c2e86$92105508419a81a6babfaecf876a2fa0'),
    ('django_salted_md5', 'táБℓə', {'salt': 'd9eb8'}, {}, 'md5$d9eb8$01495b32852bffb27cf5d4394fe7a54c'),
    ('django_salted_sha1', 'password', {'salt': '123abcdef'}, {}, 'sha1$123abcdef$e4a1877b0e35c47329e7ed7e58014276168a37ba'),
    ('django_salted_sha1', 'test', {'salt': 'bcwHF9Hy8lxS'}, {}, 'sha1$bcwHF9Hy8lxS$6b4cfa0651b43161c6f1471ce9523acf1f751ba3'),
    ('django_salted_sha1', '€¥$', {'salt': 'c2e86'}, {}, 'sha1$c2e86$0f75c5d7fbd100d587c127ef0b693cde611b4ada'),
    ('django_salted_sha1', 'táБℓə', {'salt': '6d853'}, {}, 'sha1$6d853$ef13a4d8fb57aed0cb573fe9c82e28dc7fd372d4'),
    ('django_salted_sha1', 'MyPassword', {'salt': '54123'}, {}, 'sha1$54123$893cf12e134c3c215f3a76bd50d13f92404a54d3')
]


def _vec_shard(rows):
    acc = core.Acc()
    for name, secret, settings, ctx, want in rows:
        try:
            got = F.REFS[name](secret, **settings, **ctx)
        except Exception as e:  # noqa: BLE001
            raise HarnessError(f"reference {name} raised {e!r} on vector {want!r}") from e
        if got != want:
            raise HarnessError(f"reference {name}({secret!r}, {settings}, {ctx}) = {got!r}, published vector {want!r}")
        acc.ev()
        acc.cls(name)
        # a third party that can express the vector must reproduce it too
        for party, fn in F.THIRD.get(name, []):
            other = fn(secret, **settings, **ctx)
            if other is not None and other != want:
                raise HarnessError(f"{party} gives {other!r} for published vector {want!r} of {name}")
            if other is not None:
                acc.count(party)
    return acc


_PW = ["", "a", "password", "pässword€", "0123456789abcdefg", "x" * 73, b"\xff\xa3\x80bytes\xfe", "Aa \tZz" * 20]


def grid_rows():
    """small fixed settings grid for every format that has a third party"""
    rows = []
    h = "abcdefghijklmnop"
    bs = ["abcdefghijklmnopqrstuu", "./ABCDEFGHIJKLMNOPQRS."]
    for p in _PW:
        for salt in ("", "ab", h[:8]):
            rows.append(("md5_crypt", p, {"salt": salt}))
        for salt in ("", "ab", h):
            for r in (1000, 1001, 1042, 1043, 5000):
                for n in ("sha256_crypt", "sha512_crypt"):
                    rows.append((n, p, {"salt": salt, "rounds": r, "implicit_rounds": r == 5000}))
        for salt in ("", "ab", h * 4):
            for r in (1, 2, 37):
                rows.append(("sha1_crypt", p, {"salt": salt, "rounds": r}))
        for salt in ("ab", "./", "zz"):
            rows.append(("des_crypt", p, {"salt": salt}))
        for r in (1, 2, 9):
            rows.append(("bsdi_crypt", p, {"salt": "ab./", "rounds": r}))
        for salt in bs:
            for ident in ("2a", "2b", "2y"):
                rows.append(("bcrypt", p, {"salt": salt, "rounds": 4, "ident": ident}))
            rows.append(("bcrypt", p, {"salt": salt, "rounds": 5, "ident": "2b"}))
            rows.append(("bcrypt_sha256", p, {"salt": salt, "rounds": 4, "ident": "2b", "version": 2}))
            rows.append(("bcrypt_sha256", p, {"salt": salt, "rounds": 4, "ident": "2a", "version": 1}))
            rows.append(("django_bcrypt", p, {"salt": salt, "rounds": 4, "ident": "2b"}))
            rows.append(("django_bcrypt_sha256", p, {"salt": salt, "rounds": 4, "ident": "2b"}))
        rows.append(("bsd_nthash", p, {}))
        for ln, r, pp in ((1, 1, 1), (3, 8, 1), (4, 2, 2)):
            rows.append(("scrypt", p, {"salt": b"saltSALT./", "rounds": ln, "block_size": r, "parallelism": pp, "ident": "$7$"}))
        for n in ("pbkdf2_sha1", "pbkdf2_sha256", "pbkdf2_sha512"):
            for r in (1, 2, 33):
                rows.append((n, p, {"salt": b"\x00\xffsalt" * 3, "rounds": r}))
        for salt in ("s", "saltSALT0123"):
            rows.append(("django_salted_md5", p, {"salt": salt}))
            for r in (1, 3, 20):
                rows.append(("django_pbkdf2_sha256", p, {"salt": salt, "rounds": r}))
                rows.append(("django_pbkdf2_sha1", p, {"salt": salt, "rounds": r}))
    for p in _PW[:4]:
        for r in (0, 1, 9):
            for bare in (False, True):
                rows.append(("sun_md5_crypt", p, {"salt": "abcd", "rounds": r, "bare_salt": bare}))
    return rows


def _grid_shard(rows):
    from mc.refs import des as D

    acc = core.Acc()
    for name, p, st in rows:
        raw = F.utf8(p)
        if b"\x00" in raw:
            continue
        if F.AXES[name]["secret"] == "text" and isinstance(p, bytes):
            try:
                p.decode("utf-8")
            except UnicodeDecodeError:
                continue
        ref = F.REFS[name](p, **st)
        n = 0
        for party, fn in F.THIRD.get(name, []):
            other = fn(p, **st)
            if other is None:
                continue
            n += 1
            if other != ref:
                raise HarnessError(f"{party} = {other!r} but reference {name} = {ref!r} for {p!r} {st}")
            acc.count(party)
        if name == "des_crypt" and D.crypt_des(raw, st["salt"]) != ref:
            raise HarnessError(f"mc.refs.des.crypt_des disagrees with formats.des_crypt on {p!r} {st}")
        if name == "bsdi_crypt" and D.crypt_bsdi(raw, st["rounds"], st["salt"]) != ref:
            raise HarnessError(f"mc.refs.des.crypt_bsdi disagrees with formats.bsdi_crypt on {p!r} {st}")
        acc.ev()
        if n:
            acc.cls(name, "third")
    return acc


_SANITY_DONE = False


def quick_sanity():
    """a sub-second subset used at the start of every C02 run: one vector per format"""
    global _SANITY_DONE
    if _SANITY_DONE:
        return
    seen = set()
    rows = []
    for row in VECTORS:
        if row[0] in seen or row[0] in ("bsdi_crypt", "msdcc2", "atlassian_pbkdf2_sha1", "sun_md5_crypt"):
            continue
        seen.add(row[0])
        rows.append(row)
    _vec_shard(rows)
    _SANITY_DONE = True


def main():
    t0 = time.time()
    missing = sorted(set(F.REFS) - {r[0] for r in VECTORS})
    # formats without a published vector of their own are pure prefix wrappers of a format that has one
    for name in missing:
        if not (name.startswith("ldap_") or name in ("roundup_plaintext",)):
            raise HarnessError(f"no published vector for {name}")
    acc = core.pmap(_vec_shard, core.chunked(sorted(VECTORS, key=lambda r: r[0] not in ("bsdi_crypt", "msdcc2")), 64))
    nvec = acc.evaluations
    if nvec != len(VECTORS):
        raise HarnessError("vector shards lost rows")
    g = core.pmap(_grid_shard, core.chunked(grid_rows(), 64))
    need = {"md5_crypt", "sha256_crypt", "sha512_crypt", "sha1_crypt", "sun_md5_crypt", "des_crypt", "bsdi_crypt",
            "bcrypt", "bcrypt_sha256", "bsd_nthash", "scrypt", "pbkdf2_sha1", "pbkdf2_sha256", "pbkdf2_sha512",
            "django_salted_md5", "django_pbkdf2_sha256", "django_pbkdf2_sha1", "django_bcrypt", "django_bcrypt_sha256"}
    have = {c.split("|")[0] for c in g.classes}
    if need - have:
        raise HarnessError(f"third parties silent for {sorted(need - have)}")
    print(f"formats selfcheck ok: {nvec} published vectors over {len({r[0] for r in VECTORS})} formats, "
          f"{g.evaluations} grid rows, third-party agreements {dict(g.counters)}, {time.time() - t0:.1f}s")
    return 0


if __name__ == "__main__":
    sys.exit(main())
