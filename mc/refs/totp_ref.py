"""Reference models for C13 / C14 / C15 (RFC 4226, RFC 6238, DESIGN Appendix A.3, KeyURI reader).

Deliberately boring: stdlib hmac/hashlib/struct/base64/urllib only, nothing from passlib.
self_check() replays the RFCs' own vectors; a failure is a broken harness, never a VIOLATION.
"""
from __future__ import annotations

import base64
import hashlib
import hmac
import re
import struct
import urllib.parse

ALGS = ("sha1", "sha256", "sha512")


# ---------------------------------------------------------------------------
# RFC 4226 section 5.3 / RFC 6238 section 4
# ---------------------------------------------------------------------------
def hotp_value(key, counter, alg="sha1"):
    """-> (31-bit value, dynamic-truncation offset)"""
    digest = hmac.new(key, struct.pack(">Q", counter), getattr(hashlib, alg)).digest()
    offset = digest[len(digest) - 1] & 0x0F
    value = (
        ((digest[offset] & 0x7F) << 24)
        | (digest[offset + 1] << 16)
        | (digest[offset + 2] << 8)
        | digest[offset + 3]
    )
    return value, offset


def hotp(key, counter, digits=6, alg="sha1"):
    value, _ = hotp_value(key, counter, alg)
    text = str(value % (10**digits))
    return "0" * (digits - len(text)) + text


def time_counter(t, period):
    """RFC 6238: T = floor((now - T0) / X) with T0 = 0; t is whole seconds >= 0"""
    return t // period


def totp(key, t, digits=6, alg="sha1", period=30):
    return hotp(key, time_counter(t, period), digits, alg)


# ---------------------------------------------------------------------------
# DESIGN Appendix A.3 -- acceptance model for TOTP.match
# ---------------------------------------------------------------------------
MALFORMED, INVALID, USED, MATCH = "Malformed", "Invalid", "Used", "Match"


def floordiv(a, b):
    q = a // b
    assert q * b <= a < (q + 1) * b
    return q


def accept(code, well_formed, code_of, t, window, skew, last, period):
    """code: normalised submitted code (text) when well_formed, else anything.

    code_of(counter) -> text of the code for that counter.
    Returns (MALFORMED,), (INVALID,), (USED, expire_time) or
    (MATCH, counter, expected_counter, skipped, expire_time, cache_time).
    """
    if not well_formed:
        return (MALFORMED,)
    L = -1 if last is None else last
    cl = t + skew
    lo = max(L, floordiv(cl - window, period), 0)
    hi = floordiv(cl + window, period)
    if hi < lo:
        return (INVALID,)
    m = None
    c = lo
    while c <= hi:
        if code_of(c) == code:
            m = c
            break
        c += 1
    if m is None:
        return (INVALID,)
    if m == L:
        return (USED, (L + 1) * period)
    expected = floordiv(t, period)
    expire = (m + 1) * period
    return (MATCH, m, expected, m - expected, expire, expire + window)


# ---------------------------------------------------------------------------
# independent KeyURI reader (github.com/google/google-authenticator/wiki/Key-Uri-Format)
# ---------------------------------------------------------------------------
_URI_CHARS = re.compile(r"^[A-Za-z0-9\-._~:/?#\[\]@!$&'()*+,;=%]*$")


class UriError(Exception):
    """code = short stable reason, field = label / issuer / None"""

    def __init__(self, code, field=None):
        Exception.__init__(self, code)
        self.code = code.replace(" ", "_")
        self.field = field


def b32_loose(text):
    text = text.upper()
    text += "=" * (-len(text) % 8)
    return base64.b32decode(text)


def parse_keyuri(uri):
    """-> dict(type, label, issuer, key, alg, digits, period); spec defaults applied"""
    if not _URI_CHARS.match(uri):
        raise UriError("characters outside RFC 3986")
    parts = urllib.parse.urlsplit(uri)
    if parts.scheme != "otpauth":
        raise UriError("scheme")
    if parts.fragment or "#" in uri:
        raise UriError("fragment")
    path = parts.path
    if not path.startswith("/") or len(path) < 2:
        raise UriError("no label", "label")
    raw_label = path[1:]
    if "/" in raw_label:
        raise UriError("unescaped slash in label", "label")
    # the issuer prefix is separated by a literal or an encoded colon
    label = urllib.parse.unquote(raw_label, errors="strict")
    prefix = None
    if ":" in label:
        prefix, label = label.split(":", 1)
        if ":" in label:
            raise UriError("two colons", "label")
        label = label.lstrip(" ")
    params = {}
    if parts.query:
        for item in parts.query.split("&"):
            if "=" not in item:
                raise UriError("query item without value")
            k, v = item.split("=", 1)
            k = urllib.parse.unquote(k, errors="strict")
            v = urllib.parse.unquote(v, errors="strict")  # '+' stays '+': spec wants %20 for blanks
            if k in params:
                raise UriError("duplicate " + k)
            params[k] = v
    if "secret" not in params:
        raise UriError("no secret")
    issuer = params.get("issuer")
    if prefix is not None and issuer is not None and prefix != issuer:
        raise UriError("issuer prefix differs from parameter", "issuer")
    if issuer is None:
        issuer = prefix
    alg = params.get("algorithm", "SHA1")
    # (the KeyURI document names SHA1 / SHA256 / SHA512; a writer may name any digest both ends know --
    #  the reference accepts the upper-cased name of every constructor hashlib has)
    if alg != alg.upper() or not callable(getattr(hashlib, alg.lower(), None)) or alg.startswith("_"):
        raise UriError("algorithm " + alg)
    known = {"secret", "issuer", "algorithm", "digits", "period"}
    extra = sorted(set(params) - known)
    return {
        "type": parts.netloc,
        "label": label,
        "issuer": issuer,
        "prefix": prefix,
        "issuer_param": params.get("issuer"),
        "key": b32_loose(params["secret"]),
        "alg": alg.lower(),
        "digits": int(params.get("digits", "6")),
        "period": int(params.get("period", "30")),
        "extra": extra,
    }


# ---------------------------------------------------------------------------
# self check (specification vectors)
# ---------------------------------------------------------------------------
_RFC4226_KEY = b"12345678901234567890"
_RFC4226_VALUES = [1284755224, 1094287082, 137359152, 1726969429, 1640338314,
                   868254676, 1918287922, 82162583, 673399871, 645520489]
_RFC4226_HOTP = ["755224", "287082", "359152", "969429", "338314",
                 "254676", "287922", "162583", "399871", "520489"]
_RFC6238_KEYS = {
    "sha1": b"12345678901234567890",
    "sha256": b"12345678901234567890123456789012",
    "sha512": b"1234567890123456789012345678901234567890123456789012345678901234",
}
_RFC6238 = [
    (59, "94287082", "46119246", "90693936"),
    (1111111109, "07081804", "68084774", "25091201"),
    (1111111111, "14050471", "67062674", "99943326"),
    (1234567890, "89005924", "91819424", "93441116"),
    (2000000000, "69279037", "90698825", "38618901"),
    (20000000000, "65353130", "77737706", "47863826"),
]


def self_check():
    """returns a list of problems (empty = reference reproduces the RFC vectors)"""
    bad = []
    for c, (v, h) in enumerate(zip(_RFC4226_VALUES, _RFC4226_HOTP)):
        if hotp_value(_RFC4226_KEY, c)[0] != v or hotp(_RFC4226_KEY, c, 6) != h:
            bad.append(f"RFC 4226 appendix D count {c}")
    for t, s1, s256, s512 in _RFC6238:
        for alg, want in zip(ALGS, (s1, s256, s512)):
            if totp(_RFC6238_KEYS[alg], t, 8, alg, 30) != want:
                bad.append(f"RFC 6238 appendix B t={t} {alg}")
    # acceptance model sanity (hand-computed)
    codes = lambda c: "%06d" % c  # noqa: E731
    checks = [
        (accept("000001", True, codes, 59, 0, 0, None, 30), (MATCH, 1, 1, 0, 60, 60)),
        (accept("000000", True, codes, 59, 30, 0, None, 30), (MATCH, 0, 1, -1, 30, 60)),
        (accept("000003", True, codes, 59, 30, 0, None, 30), (INVALID,)),
        (accept("000002", True, codes, 59, 30, 0, None, 30), (MATCH, 2, 1, 1, 90, 120)),
        (accept("000001", True, codes, 59, 30, 0, 1, 30), (USED, 60)),
        (accept("000000", True, codes, 59, 30, 0, 1, 30), (INVALID,)),
        (accept("xx", False, codes, 59, 30, 0, 1, 30), (MALFORMED,)),
        (accept("000000", True, codes, 2, 0, -3, None, 30), (INVALID,)),
    ]
    for i, (got, want) in enumerate(checks):
        if got != want:
            bad.append(f"accept() sanity {i}: {got} != {want}")
    u = parse_keyuri("otpauth://totp/Example:alice@google.com?secret=JBSWY3DPEHPK3PXP&issuer=Example")
    if (u["label"], u["issuer"], u["key"], u["alg"], u["digits"], u["period"]) != (
        "alice@google.com", "Example", b"Hello!\xde\xad\xbe\xef", "sha1", 6, 30):
        bad.append("parse_keyuri spec example 1")
    u = parse_keyuri("otpauth://totp/ACME%20Co:john.doe@email.com?secret=HXDMVJECJJWSRB3HWIZR4IFUGFTMXBOZ"
                     "&issuer=ACME%20Co&algorithm=SHA256&digits=8&period=60")
    if (u["label"], u["issuer"], u["alg"], u["digits"], u["period"]) != ("john.doe@email.com", "ACME Co", "sha256", 8, 60):
        bad.append("parse_keyuri spec example 2")
    return bad
