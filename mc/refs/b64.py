"""Reference 6-bit codecs by plain integer arithmetic (no tables shared with passlib)."""
from __future__ import annotations

STD = "ABCDEFGHIJKLMNOPQRSTUVWXYZabcdefghijklmnopqrstuvwxyz0123456789+/"
H64 = "./0123456789ABCDEFGHIJKLMNOPQRSTUVWXYZabcdefghijklmnopqrstuvwxyz"
BCRYPT = "./ABCDEFGHIJKLMNOPQRSTUVWXYZabcdefghijklmnopqrstuvwxyz0123456789"
AB64 = "ABCDEFGHIJKLMNOPQRSTUVWXYZabcdefghijklmnopqrstuvwxyz0123456789./"


def nchars(nbytes):
    return (8 * nbytes + 5) // 6


def encode_bytes(data: bytes, alphabet: str, big: bool) -> bytes:
    n = len(data)
    k = nchars(n)
    if big:
        v = int.from_bytes(data, "big") << (6 * k - 8 * n)
        return "".join(alphabet[(v >> (6 * (k - 1 - i))) & 63] for i in range(k)).encode("ascii")
    v = int.from_bytes(data, "little")
    return "".join(alphabet[(v >> (6 * i)) & 63] for i in range(k)).encode("ascii")


def decode_bytes(text: bytes, alphabet: str, big: bool) -> bytes:
    """strict on characters and on len%4==1; unused bits ignored"""
    k = len(text)
    if k % 4 == 1:
        raise ValueError("length")
    n = (6 * k) // 8
    vals = []
    for c in text:
        i = alphabet.find(chr(c))
        if i < 0:
            raise ValueError("char")
        vals.append(i)
    if big:
        v = 0
        for x in vals:
            v = (v << 6) | x
        v >>= 6 * k - 8 * n
        return v.to_bytes(n, "big")
    v = 0
    for i, x in enumerate(vals):
        v |= x << (6 * i)
    v &= (1 << (8 * n)) - 1
    return v.to_bytes(n, "little")


def clean_last(text: bytes, alphabet: str, big: bool) -> bytes:
    """text with the unused bits of its last character cleared"""
    k = len(text)
    unused = 6 * k - 8 * ((6 * k) // 8)
    if not unused or not text:
        return text
    i = alphabet.index(chr(text[-1]))
    if big:
        i &= ~((1 << unused) - 1)
    else:
        i &= (1 << (6 - unused)) - 1
    return text[:-1] + alphabet[i].encode("ascii")


def encode_int(value: int, bits: int, alphabet: str, big: bool) -> bytes:
    k = (bits + 5) // 6
    if big:
        v = value << (6 * k - bits)
        return "".join(alphabet[(v >> (6 * (k - 1 - i))) & 63] for i in range(k)).encode("ascii")
    return "".join(alphabet[(value >> (6 * i)) & 63] for i in range(k)).encode("ascii")
