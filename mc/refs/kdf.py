"""HMAC (RFC 2104), PBKDF1 and PBKDF2 (RFC 2898 sections 5.1, 5.2) written out literally.

    hmac_ref(digest_name, key, msg) -> bytes
    pbkdf1_ref(digest, secret, salt, rounds, keylen) -> bytes     (ValueError when keylen > hLen)
    pbkdf2_ref(digest, secret, salt, rounds, keylen) -> bytes     (ValueError when keylen > (2^32-1)*hLen)

`digest_name` is a hashlib name, or "md4" (served by mc.refs.md4, since this
host's hashlib has none).  Neither the stdlib `hmac` module nor
`hashlib.pbkdf2_hmac` is used here (they are *second* opinions in selfcheck).
"""
from __future__ import annotations

import hashlib

from mc.refs import md4 as _md4

# digest name -> (hash function bytes->bytes, output length L, block length B)
_BLOCK = {"md4": 64, "md5": 64, "sha1": 64, "sha224": 64, "sha256": 64, "sha384": 128, "sha512": 128}


def digest_info(name):
    """-> (H, hLen, B)"""
    name = name.lower().replace("-", "")
    if name == "md4":
        return _md4.md4, 16, 64
    try:
        probe = hashlib.new(name)
    except (ValueError, TypeError) as e:
        raise ValueError(f"reference has no digest {name!r}") from e
    block = _BLOCK.get(name, probe.block_size)
    if block != probe.block_size:
        raise AssertionError(f"hashlib reports block size {probe.block_size} for {name}, specification says {block}")

    def h(data, _name=name):
        return hashlib.new(_name, data).digest()

    return h, probe.digest_size, block


def hmac_ref(digest_name, key, msg):
    """RFC 2104 section 2:  H(K XOR opad, H(K XOR ipad, text))"""
    h, _, block = digest_info(digest_name)
    # (1) keys longer than B are first hashed; append zeros to the end of K to create a B byte string
    if len(key) > block:
        key = h(key)
    key = key + b"\x00" * (block - len(key))
    # (2) XOR with ipad (0x36 repeated B times)  (3) append the text  (4) apply H
    inner = h(bytes(k ^ 0x36 for k in key) + msg)
    # (5) XOR with opad (0x5C repeated B times)  (6) append the inner result  (7) apply H
    return h(bytes(k ^ 0x5C for k in key) + inner)


def pbkdf1_ref(digest, secret, salt, rounds, keylen):
    """RFC 2898 5.1:  T_1 = Hash(P || S), T_i = Hash(T_{i-1}), DK = T_c<0..dkLen-1>"""
    h, hlen, _ = digest_info(digest)
    if rounds < 1:
        raise ValueError("iteration count must be positive")
    if keylen < 0:
        raise ValueError("negative key length")
    if keylen > hlen:
        raise ValueError("derived key too long")
    t = h(secret + salt)
    for _ in range(2, rounds + 1):
        t = h(t)
    return t[:keylen]


def pbkdf2_ref(digest, secret, salt, rounds, keylen):
    """RFC 2898 5.2 with PRF = HMAC-<digest>"""
    _, hlen, _ = digest_info(digest)
    if rounds < 1:
        raise ValueError("iteration count must be positive")
    if keylen < 0:
        raise ValueError("negative key length")
    if keylen > (2**32 - 1) * hlen:
        raise ValueError("derived key too long")
    # l = CEIL(dkLen / hLen), r = dkLen - (l - 1) * hLen
    blocks = -(-keylen // hlen)
    out = b""
    for i in range(1, blocks + 1):
        # U_1 = PRF(P, S || INT(i)), U_j = PRF(P, U_{j-1}); T_i = U_1 xor ... xor U_c
        u = hmac_ref(digest, secret, salt + i.to_bytes(4, "big"))
        t = int.from_bytes(u, "big")
        for _ in range(2, rounds + 1):
            u = hmac_ref(digest, secret, u)
            t ^= int.from_bytes(u, "big")
        out += t.to_bytes(hlen, "big")
    return out[:keylen]


# --------------------------------------------------------------------------
# specification vectors
# --------------------------------------------------------------------------
# RFC 2202 (HMAC-MD5, HMAC-SHA1), RFC 4231 (HMAC-SHA-2): (digest, key, data, mac hex)
HMAC_VECTORS = [
    ("md5", b"\x0b" * 16, b"Hi There", "9294727a3638bb1c13f48ef8158bfc9d"),
    ("md5", b"Jefe", b"what do ya want for nothing?", "750c783e6ab0b503eaa86e310a5db738"),
    ("md5", b"\xaa" * 16, b"\xdd" * 50, "56be34521d144c88dbb8c733f0e8b3f6"),
    ("md5", b"\xaa" * 80, b"Test Using Larger Than Block-Size Key - Hash Key First", "6b1ab7fe4bd7bf8f0b62e6ce61b9d0cd"),
    ("sha1", b"\x0b" * 20, b"Hi There", "b617318655057264e28bc0b6fb378c8ef146be00"),
    ("sha1", b"Jefe", b"what do ya want for nothing?", "effcdf6ae5eb2fa2d27416d5f184df9c259a7c79"),
    ("sha1", b"\xaa" * 80, b"Test Using Larger Than Block-Size Key - Hash Key First",
     "aa4ae5e15272d00e95705637ce8a3b55ed402112"),
    ("sha224", b"\x0b" * 20, b"Hi There", "896fb1128abbdf196832107cd49df33f47b4b1169912ba4f53684b22"),
    ("sha256", b"\x0b" * 20, b"Hi There", "b0344c61d8db38535ca8afceaf0bf12b881dc200c9833da726e9376c2e32cff7"),
    ("sha256", b"Jefe", b"what do ya want for nothing?", "5bdcc146bf60754e6a042426089575c75a003f089d2739839dec58b964ec3843"),
    ("sha256", b"\xaa" * 131, b"Test Using Larger Than Block-Size Key - Hash Key First",
     "60e431591ee0b67f0d8a26aacbf5b77f8e0bc6213728c5140546040f0ee37f54"),
    ("sha384", b"\x0b" * 20, b"Hi There",
     "afd03944d84895626b0825f4ab46907f15f9dadbe4101ec682aa034c7cebc59cfaea9ea9076ede7f4af152e8b2fa9cb6"),
    ("sha512", b"\x0b" * 20, b"Hi There",
     "87aa7cdea5ef619d4ff0b4241a1d6cb02379f4e2ce4ec2787ad0b30545e17cdedaa833b7d6b8a702038b274eaea3f4e4"
     "be9d914eeb61f1702e696c203a126854"),
    ("sha512", b"\xaa" * 131, b"Test Using Larger Than Block-Size Key - Hash Key First",
     "80b24263c7c1a3ebb71493c1dd7be8b49b46d1f41b4aeec1121b013783f8f3526b56d037e05f2598bd0fd2215d6a1e52"
     "95e64f73f63f0aec8b915a985d786598"),
]

# RFC 6070 (PBKDF2-HMAC-SHA1), RFC 7914 section 11 (PBKDF2-HMAC-SHA256)
PBKDF2_VECTORS = [
    ("sha1", b"password", b"salt", 1, 20, "0c60c80f961f0e71f3a9b524af6012062fe037a6"),
    ("sha1", b"password", b"salt", 2, 20, "ea6c014dc72d6f8ccd1ed92ace1d41f0d8de8957"),
    ("sha1", b"password", b"salt", 4096, 20, "4b007901b765489abead49d926f721d065a429c1"),
    ("sha1", b"passwordPASSWORDpassword", b"saltSALTsaltSALTsaltSALTsaltSALTsalt", 4096, 25,
     "3d2eec4fe41c849b80c8d83662c0e44a8b291a964cf2f07038"),
    ("sha1", b"pass\x00word", b"sa\x00lt", 4096, 16, "56fa6aa75548099dcc37d7f03425e0c3"),
    ("sha256", b"passwd", b"salt", 1, 64,
     "55ac046e56e3089fec1691c22544b605f94185216dde0465e68b9d57c20dacbc49ca9cccf179b645991664b39d77ef31"
     "7c71b845b1e30bd509112041d3a19783"),
]

# PBKDF1: RFC 2898 gives no vectors; the definition collapses to an iterated hash, checked in selfcheck
# against a direct hashlib loop.  One widely published vector (PBKDF1-SHA1, "password"/0x78578E5A5D63CB06, c=1000):
PBKDF1_VECTORS = [
    ("sha1", b"password", bytes.fromhex("78578E5A5D63CB06"), 1000, 16, "dc19847e05c64d2faf10ebfb4a3d2a20"),
]


def check_vectors():
    n = 0
    for name, key, msg, want in HMAC_VECTORS:
        got = hmac_ref(name, key, msg).hex()
        assert got == want, f"HMAC reference fails {name} vector key={key[:4]!r}..: {got}"
        n += 1
    for name, pw, salt, c, dk, want in PBKDF2_VECTORS:
        got = pbkdf2_ref(name, pw, salt, c, dk).hex()
        assert got == want, f"PBKDF2 reference fails RFC vector {name} {pw!r} c={c}: {got}"
        n += 1
    for name, pw, salt, c, dk, want in PBKDF1_VECTORS:
        got = pbkdf1_ref(name, pw, salt, c, dk).hex()
        assert got == want, f"PBKDF1 reference fails vector {name} {pw!r} c={c}: {got}"
        n += 1
    return n
