"""Textbook DES, typed from FIPS PUB 46-3, plus the crypt(3) extensions.

Deliberately unoptimised: every value is a list of bits (ints 0/1) numbered
as in the standard (bit 1 = leftmost = most significant), every permutation
is applied by table lookup one bit at a time, S-boxes are the 4x16 tables of
the standard addressed by (row = outer bits, column = inner bits).  Nothing
here is shared with (or shaped like) passlib.crypto.des, which fuses
S/P/E into 64-bit tables.

crypt(3) extensions
-------------------
salt    24-bit integer; if bit i is set, bits i and i+24 of the 48-bit output
        of E (counted from 0 at the *left*, i.e. FIPS bits i+1 and i+25) are
        exchanged before the round key is added (Unix V7 crypt.c: the E table
        itself has entries 6*c+j and 6*c+j+24 exchanged).
rounds  the complete DES encryption IP^-1(swap(16 rounds(IP(x)))) applied
        `rounds` times in a row (crypt(3) uses 25; BSDi a configurable count).

Public interface (same semantics as passlib.crypto.des):
    des_encrypt_int_block(key, input, salt=0, rounds=1) -> int
    des_encrypt_block(key, input, salt=0, rounds=1) -> bytes
    expand_des_key(key7) -> key8      (bytes or int; parity bits = 0)
    shrink_des_key(key8) -> key7      (bytes or int)
extras:
    des_trace(key, input, salt=0, rounds=1) -> (int, [(iteration, round, box, index6)])
    block_for_round_state(key, round_index, left, right, salt=0) -> int   (rounds run backwards)
    right_half_for_sbox_inputs(key, round_index, {box: value}, salt=0, fill=0) -> (R, boxes satisfied)
    crypt_des(password: bytes, salt2: str) -> str        traditional crypt(3)
    crypt_bsdi(password: bytes, rounds: int, salt4: str) -> str   BSDi "_" extended crypt
    VECTORS: known-answer vectors (key, plaintext, ciphertext) as hex strings
"""
from __future__ import annotations

# --------------------------------------------------------------------------
# FIPS 46-3 tables (1-based bit numbers, exactly as printed in the standard)
# --------------------------------------------------------------------------
IP = [
    58, 50, 42, 34, 26, 18, 10, 2,
    60, 52, 44, 36, 28, 20, 12, 4,
    62, 54, 46, 38, 30, 22, 14, 6,
    64, 56, 48, 40, 32, 24, 16, 8,
    57, 49, 41, 33, 25, 17, 9, 1,
    59, 51, 43, 35, 27, 19, 11, 3,
    61, 53, 45, 37, 29, 21, 13, 5,
    63, 55, 47, 39, 31, 23, 15, 7,
]

IP_INV = [
    40, 8, 48, 16, 56, 24, 64, 32,
    39, 7, 47, 15, 55, 23, 63, 31,
    38, 6, 46, 14, 54, 22, 62, 30,
    37, 5, 45, 13, 53, 21, 61, 29,
    36, 4, 44, 12, 52, 20, 60, 28,
    35, 3, 43, 11, 51, 19, 59, 27,
    34, 2, 42, 10, 50, 18, 58, 26,
    33, 1, 41, 9, 49, 17, 57, 25,
]

E = [
    32, 1, 2, 3, 4, 5,
    4, 5, 6, 7, 8, 9,
    8, 9, 10, 11, 12, 13,
    12, 13, 14, 15, 16, 17,
    16, 17, 18, 19, 20, 21,
    20, 21, 22, 23, 24, 25,
    24, 25, 26, 27, 28, 29,
    28, 29, 30, 31, 32, 1,
]

P = [
    16, 7, 20, 21,
    29, 12, 28, 17,
    1, 15, 23, 26,
    5, 18, 31, 10,
    2, 8, 24, 14,
    32, 27, 3, 9,
    19, 13, 30, 6,
    22, 11, 4, 25,
]

S = [
    [  # S1
        [14, 4, 13, 1, 2, 15, 11, 8, 3, 10, 6, 12, 5, 9, 0, 7],
        [0, 15, 7, 4, 14, 2, 13, 1, 10, 6, 12, 11, 9, 5, 3, 8],
        [4, 1, 14, 8, 13, 6, 2, 11, 15, 12, 9, 7, 3, 10, 5, 0],
        [15, 12, 8, 2, 4, 9, 1, 7, 5, 11, 3, 14, 10, 0, 6, 13],
    ],
    [  # S2
        [15, 1, 8, 14, 6, 11, 3, 4, 9, 7, 2, 13, 12, 0, 5, 10],
        [3, 13, 4, 7, 15, 2, 8, 14, 12, 0, 1, 10, 6, 9, 11, 5],
        [0, 14, 7, 11, 10, 4, 13, 1, 5, 8, 12, 6, 9, 3, 2, 15],
        [13, 8, 10, 1, 3, 15, 4, 2, 11, 6, 7, 12, 0, 5, 14, 9],
    ],
    [  # S3
        [10, 0, 9, 14, 6, 3, 15, 5, 1, 13, 12, 7, 11, 4, 2, 8],
        [13, 7, 0, 9, 3, 4, 6, 10, 2, 8, 5, 14, 12, 11, 15, 1],
        [13, 6, 4, 9, 8, 15, 3, 0, 11, 1, 2, 12, 5, 10, 14, 7],
        [1, 10, 13, 0, 6, 9, 8, 7, 4, 15, 14, 3, 11, 5, 2, 12],
    ],
    [  # S4
        [7, 13, 14, 3, 0, 6, 9, 10, 1, 2, 8, 5, 11, 12, 4, 15],
        [13, 8, 11, 5, 6, 15, 0, 3, 4, 7, 2, 12, 1, 10, 14, 9],
        [10, 6, 9, 0, 12, 11, 7, 13, 15, 1, 3, 14, 5, 2, 8, 4],
        [3, 15, 0, 6, 10, 1, 13, 8, 9, 4, 5, 11, 12, 7, 2, 14],
    ],
    [  # S5
        [2, 12, 4, 1, 7, 10, 11, 6, 8, 5, 3, 15, 13, 0, 14, 9],
        [14, 11, 2, 12, 4, 7, 13, 1, 5, 0, 15, 10, 3, 9, 8, 6],
        [4, 2, 1, 11, 10, 13, 7, 8, 15, 9, 12, 5, 6, 3, 0, 14],
        [11, 8, 12, 7, 1, 14, 2, 13, 6, 15, 0, 9, 10, 4, 5, 3],
    ],
    [  # S6
        [12, 1, 10, 15, 9, 2, 6, 8, 0, 13, 3, 4, 14, 7, 5, 11],
        [10, 15, 4, 2, 7, 12, 9, 5, 6, 1, 13, 14, 0, 11, 3, 8],
        [9, 14, 15, 5, 2, 8, 12, 3, 7, 0, 4, 10, 1, 13, 11, 6],
        [4, 3, 2, 12, 9, 5, 15, 10, 11, 14, 1, 7, 6, 0, 8, 13],
    ],
    [  # S7
        [4, 11, 2, 14, 15, 0, 8, 13, 3, 12, 9, 7, 5, 10, 6, 1],
        [13, 0, 11, 7, 4, 9, 1, 10, 14, 3, 5, 12, 2, 15, 8, 6],
        [1, 4, 11, 13, 12, 3, 7, 14, 10, 15, 6, 8, 0, 5, 9, 2],
        [6, 11, 13, 8, 1, 4, 10, 7, 9, 5, 0, 15, 14, 2, 3, 12],
    ],
    [  # S8
        [13, 2, 8, 4, 6, 15, 11, 1, 10, 9, 3, 14, 5, 0, 12, 7],
        [1, 15, 13, 8, 10, 3, 7, 4, 12, 5, 6, 11, 0, 14, 9, 2],
        [7, 11, 4, 1, 9, 12, 14, 2, 0, 6, 10, 13, 15, 3, 5, 8],
        [2, 1, 14, 7, 4, 10, 8, 13, 15, 12, 9, 0, 3, 5, 6, 11],
    ],
]

PC1 = [
    57, 49, 41, 33, 25, 17, 9,
    1, 58, 50, 42, 34, 26, 18,
    10, 2, 59, 51, 43, 35, 27,
    19, 11, 3, 60, 52, 44, 36,
    63, 55, 47, 39, 31, 23, 15,
    7, 62, 54, 46, 38, 30, 22,
    14, 6, 61, 53, 45, 37, 29,
    21, 13, 5, 28, 20, 12, 4,
]

PC2 = [
    14, 17, 11, 24, 1, 5,
    3, 28, 15, 6, 21, 10,
    23, 19, 12, 4, 26, 8,
    16, 7, 27, 20, 13, 2,
    41, 52, 31, 37, 47, 55,
    30, 40, 51, 45, 33, 48,
    44, 49, 39, 56, 34, 53,
    46, 42, 50, 36, 29, 32,
]

SHIFTS = [1, 1, 2, 2, 2, 2, 2, 2, 1, 2, 2, 2, 2, 2, 2, 1]

MASK64 = (1 << 64) - 1
MASK56 = (1 << 56) - 1
MASK24 = (1 << 24) - 1


# --------------------------------------------------------------------------
# bit-list helpers
# --------------------------------------------------------------------------
def int_to_bits(value, width):
    """bit 1 of the standard (leftmost, most significant) comes first"""
    return [(value >> (width - 1 - i)) & 1 for i in range(width)]


def bits_to_int(bits):
    value = 0
    for b in bits:
        value = (value << 1) | b
    return value


def permute(bits, table):
    """output bit n is input bit table[n] (1-based numbers as in the standard)"""
    return [bits[t - 1] for t in table]


def xor_bits(a, b):
    return [x ^ y for x, y in zip(a, b)]


def rotate_left(bits, n):
    return bits[n:] + bits[:n]


# --------------------------------------------------------------------------
# key schedule  (FIPS 46-3, "KS")
# --------------------------------------------------------------------------
def key_schedule(key_bits):
    cd = permute(key_bits, PC1)
    c, d = cd[:28], cd[28:]
    subkeys = []
    for n in range(16):
        c = rotate_left(c, SHIFTS[n])
        d = rotate_left(d, SHIFTS[n])
        subkeys.append(permute(c + d, PC2))
    return subkeys


# --------------------------------------------------------------------------
# cipher function f(R, K) with the crypt(3) salt perturbation
# --------------------------------------------------------------------------
def cipher_function(r_bits, subkey, salt, trace=None, where=None):
    expanded = permute(r_bits, E)
    # crypt(3): exchange E-output bits i and i+24 (0-based from the left) when salt bit i is set
    for i in range(24):
        if (salt >> i) & 1:
            expanded[i], expanded[i + 24] = expanded[i + 24], expanded[i]
    mixed = xor_bits(expanded, subkey)
    out = []
    for box in range(8):
        b = mixed[6 * box : 6 * box + 6]
        row = (b[0] << 1) | b[5]
        col = (b[1] << 3) | (b[2] << 2) | (b[3] << 1) | b[4]
        if trace is not None:
            trace.append(where + (box, bits_to_int(b)))
        out.extend(int_to_bits(S[box][row][col], 4))
    return permute(out, P)


def _check_args(key, input, salt, rounds):
    if not isinstance(rounds, int) or isinstance(rounds, bool):
        raise TypeError("rounds must be int")
    if rounds < 1:
        raise ValueError("rounds must be positive")
    if not isinstance(salt, int) or isinstance(salt, bool):
        raise TypeError("salt must be int")
    if salt < 0 or salt > MASK24:
        raise ValueError("salt must be a 24-bit non-negative integer")
    if not isinstance(key, int) or isinstance(key, bool):
        raise TypeError("key must be int")
    if key < 0 or key > MASK64:
        raise ValueError("key must be a 64-bit non-negative integer")
    if not isinstance(input, int) or isinstance(input, bool):
        raise TypeError("input must be int")
    if input < 0 or input > MASK64:
        raise ValueError("input must be a 64-bit non-negative integer")


def _encrypt(key, input, salt, rounds, trace):
    _check_args(key, input, salt, rounds)
    subkeys = key_schedule(int_to_bits(key, 64))
    block = int_to_bits(input, 64)
    for iteration in range(rounds):
        # one complete DES encryption, exactly as in the standard
        lr = permute(block, IP)
        left, right = lr[:32], lr[32:]
        for n in range(16):
            f = cipher_function(right, subkeys[n], salt, trace, (iteration, n))
            left, right = right, xor_bits(left, f)
        # pre-output block is R16 L16
        block = permute(right + left, IP_INV)
    return bits_to_int(block)


def des_encrypt_int_block(key, input, salt=0, rounds=1):
    """DES-encrypt the 64-bit integer *input* under the 64-bit integer *key* (parity bits ignored)"""
    return _encrypt(key, input, salt, rounds, None)


def des_trace(key, input, salt=0, rounds=1):
    """-> (ciphertext, [(iteration, round, sbox, 6-bit S-box input)]) for coverage measurement"""
    trace = []
    out = _encrypt(key, input, salt, rounds, trace)
    return out, trace


def effective_e_table(salt):
    """E followed by the crypt(3) exchanges: 48 source bit numbers (1-based) of R"""
    table = list(E)
    for i in range(24):
        if (salt >> i) & 1:
            table[i], table[i + 24] = table[i + 24], table[i]
    return table


def block_for_round_state(key, round_index, left, right, salt=0):
    """the input block for which (first iteration) the halves entering round `round_index`
    (0-based; L_n R_n of the standard with n = round_index) are (left, right): the Feistel
    rounds are run backwards from that state, then IP is undone."""
    subkeys = key_schedule(int_to_bits(key, 64))
    l, r = int_to_bits(left, 32), int_to_bits(right, 32)
    for n in range(round_index - 1, -1, -1):
        # forward step n:  L' = R ; R' = L xor f(R, K)   =>   R = L' ; L = R' xor f(L', K)
        prev_r = l
        prev_l = xor_bits(r, cipher_function(prev_r, subkeys[n], salt))
        l, r = prev_l, prev_r
    return bits_to_int(permute(l + r, IP_INV))


def right_half_for_sbox_inputs(key, round_index, wanted, salt=0, fill=0):
    """choose R entering round `round_index` so that S-box b receives the 6-bit value wanted[b]
    for as many boxes of `wanted` (dict box -> value) as the shared E bits allow.
    -> (right_half:int, satisfied: list of boxes).  Unconstrained bits come from `fill`."""
    subkey = key_schedule(int_to_bits(key, 64))[round_index]
    table = effective_e_table(salt)
    chosen = {}
    done = []
    for box in sorted(wanted):
        need = int_to_bits(wanted[box], 6)
        trial = dict(chosen)
        ok = True
        for i in range(6):
            pos = 6 * box + i
            src = table[pos]
            bit = need[i] ^ subkey[pos]
            if trial.get(src, bit) != bit:
                ok = False
                break
            trial[src] = bit
        if ok:
            chosen = trial
            done.append(box)
    bits = int_to_bits(fill & 0xFFFFFFFF, 32)
    for src, bit in chosen.items():
        bits[src - 1] = bit
    return bits_to_int(bits), done


# --------------------------------------------------------------------------
# 7 <-> 8 byte keys
# --------------------------------------------------------------------------
def expand_des_key(key):
    """56-bit key (7 bytes / int) -> 64-bit key: every 7 key bits are followed by a parity bit of 0"""
    if isinstance(key, bytes):
        if len(key) != 7:
            raise ValueError("key must be 7 bytes")
        return expand_des_key(int.from_bytes(key, "big")).to_bytes(8, "big")
    if not isinstance(key, int) or isinstance(key, bool):
        raise TypeError("key must be bytes or int")
    if key < 0 or key > MASK56:
        raise ValueError("key must be a 56-bit non-negative integer")
    bits = int_to_bits(key, 56)
    out = []
    for group in range(8):
        out.extend(bits[7 * group : 7 * group + 7])
        out.append(0)
    return bits_to_int(out)


def shrink_des_key(key):
    """64-bit key (8 bytes / int) -> 56-bit key: bit 8 of every byte (the parity bit) is dropped"""
    if isinstance(key, bytes):
        if len(key) != 8:
            raise ValueError("key must be 8 bytes")
        return shrink_des_key(int.from_bytes(key, "big")).to_bytes(7, "big")
    if not isinstance(key, int) or isinstance(key, bool):
        raise TypeError("key must be bytes or int")
    if key < 0 or key > MASK64:
        raise ValueError("key must be a 64-bit non-negative integer")
    bits = int_to_bits(key, 64)
    out = []
    for group in range(8):
        out.extend(bits[8 * group : 8 * group + 7])
    return bits_to_int(out)


def des_encrypt_block(key, input, salt=0, rounds=1):
    """bytes form: key of 8 bytes (parity ignored) or 7 bytes (expanded first); 8-byte block"""
    if not isinstance(key, bytes):
        raise TypeError("key must be bytes")
    if len(key) == 7:
        key = expand_des_key(key)
    elif len(key) != 8:
        raise ValueError("key must be 7 or 8 bytes")
    if not isinstance(input, bytes):
        raise TypeError("input must be bytes")
    if len(input) != 8:
        raise ValueError("input must be 8 bytes")
    out = des_encrypt_int_block(int.from_bytes(key, "big"), int.from_bytes(input, "big"), salt, rounds)
    return out.to_bytes(8, "big")


# --------------------------------------------------------------------------
# crypt(3) assemblies over the reference DES (used to compare with libxcrypt)
# --------------------------------------------------------------------------
H64 = "./0123456789ABCDEFGHIJKLMNOPQRSTUVWXYZabcdefghijklmnopqrstuvwxyz"


def _h64_decode_little(text):
    value = 0
    for i, ch in enumerate(text):
        value |= H64.index(ch) << (6 * i)
    return value


def _h64_encode_little(value, nchars):
    return "".join(H64[(value >> (6 * i)) & 63] for i in range(nchars))


def _h64_encode_int64_big(value):
    value <<= 2  # 64 bits -> 66 bits = 11 characters, two zero bits appended on the right
    return "".join(H64[(value >> (6 * (10 - i))) & 63] for i in range(11))


def _password_block_to_key(chunk):
    """up to 8 password bytes; 7 low bits of each byte become the 7 key bits of a key byte"""
    chunk = chunk + b"\x00" * (8 - len(chunk))
    return int.from_bytes(bytes((c << 1) & 0xFF for c in chunk), "big")


def crypt_des(password, salt2):
    """traditional crypt(3): 25 salted DES iterations of the zero block under the first 8 characters"""
    key = _password_block_to_key(password[:8])
    salt = _h64_decode_little(salt2)
    out = des_encrypt_int_block(key, 0, salt, 25)
    return salt2 + _h64_encode_int64_big(out)


def crypt_bsdi(password, rounds, salt4):
    """BSDi extended crypt: "_" rounds(4 chars) salt(4 chars) checksum(11); long passwords are folded"""
    key = _password_block_to_key(password[:8])
    pos = 8
    while pos < len(password):
        folded = des_encrypt_int_block(key, key)
        key = folded ^ _password_block_to_key(password[pos : pos + 8])
        pos += 8
    salt = _h64_decode_little(salt4)
    out = des_encrypt_int_block(key, 0, salt, rounds)
    return "_" + _h64_encode_little(rounds, 4) + salt4 + _h64_encode_int64_big(out)


# --------------------------------------------------------------------------
# known-answer vectors
#  - the worked example used in most DES tutorials, FIPS 81's "Now is t" example
#  - NBS SP 500-20 initial-permutation / key-permutation / S-box (data substitution) tests
# --------------------------------------------------------------------------
VECTORS = [
    ("133457799BBCDFF1", "0123456789ABCDEF", "85E813540F0AB405"),
    ("0123456789ABCDEF", "4E6F772069732074", "3FA40E8A984D4815"),
    # variable plaintext known-answer test (IP and E)
    ("0101010101010101", "8000000000000000", "95F8A5E5DD31D900"),
    ("0101010101010101", "4000000000000000", "DD7F121CA5015619"),
    ("0101010101010101", "2000000000000000", "2E8653104F3834EA"),
    ("0101010101010101", "1000000000000000", "4BD388FF6CD81D4F"),
    ("0101010101010101", "0800000000000000", "20B9E767B2FB1456"),
    ("0101010101010101", "0400000000000000", "55579380D77138EF"),
    ("0101010101010101", "0200000000000000", "6CC5DEFAAF04512F"),
    ("0101010101010101", "0100000000000000", "0D9F279BA5D87260"),
    ("0101010101010101", "0080000000000000", "D9031B0271BD5A0A"),
    # variable key known-answer test (PC1 / PC2)
    ("8001010101010101", "0000000000000000", "95A8D72813DAA94D"),
    ("4001010101010101", "0000000000000000", "0EEC1487DD8C26D5"),
    ("2001010101010101", "0000000000000000", "7AD16FFB79C45926"),
    ("1001010101010101", "0000000000000000", "D3746294CA6A6CF3"),
    ("0801010101010101", "0000000000000000", "809F5F873C1FD761"),
    ("0401010101010101", "0000000000000000", "C02FAFFEC989D1FC"),
    ("0201010101010101", "0000000000000000", "4615AA1D33E72F10"),
    # substitution table known-answer test (19 vectors exercising the S-boxes)
    ("7CA110454A1A6E57", "01A1D6D039776742", "690F5B0D9A26939B"),
    ("0131D9619DC1376E", "5CD54CA83DEF57DA", "7A389D10354BD271"),
    ("07A1133E4A0B2686", "0248D43806F67172", "868EBB51CAB4599A"),
    ("3849674C2602319E", "51454B582DDF440A", "7178876E01F19B2A"),
    ("04B915BA43FEB5B6", "42FD443059577FA2", "AF37FB421F8C4095"),
    ("0113B970FD34F2CE", "059B5E0851CF143A", "86A560F10EC6D85B"),
    ("0170F175468FB5E6", "0756D8E0774761D2", "0CD3DA020021DC09"),
    ("43297FAD38E373FE", "762514B829BF486A", "EA676B2CB7DB2B7A"),
    ("07A7137045DA2A16", "3BDD119049372802", "DFD64A815CAF1A0F"),
    ("04689104C2FD3B2F", "26955F6835AF609A", "5C513C9C4886C088"),
    ("37D06BB516CB7546", "164D5E404F275232", "0A2AEEAE3FF4AB77"),
    ("1F08260D1AC2465E", "6B056E18759F5CCA", "EF1BF03E5DFA575A"),
    ("584023641ABA6176", "004BD6EF09176062", "88BF0DB6D70DEE56"),
    ("025816164629B007", "480D39006EE762F2", "A1F9915541020B56"),
    ("49793EBC79B3258F", "437540C8698F3CFA", "6FBF1CAFCFFD0556"),
    ("4FB05E1515AB73A7", "072D43A077075292", "2F22E49BAB7CA1AC"),
    ("49E95D6D4CA229BF", "02FE55778117F12A", "5A6B612CC26CCE4A"),
    ("018310DC409B26D6", "1D9D5C5018F728C2", "5F4C038ED12B2E41"),
    ("1C587F1C13924FEF", "305532286D6F295A", "63FAC0D034D9F793"),
]


def check_vectors():
    for key, plain, cipher in VECTORS:
        got = des_encrypt_int_block(int(key, 16), int(plain, 16))
        assert got == int(cipher, 16), f"DES reference fails vector {key} {plain}: {got:016X} != {cipher}"
        gotb = des_encrypt_block(bytes.fromhex(key), bytes.fromhex(plain))
        assert gotb == bytes.fromhex(cipher), (key, plain)
    return len(VECTORS)
