"""Pure-Python AES (encrypt direction only) + CTR mode, written from FIPS-197 / SP 800-38A.

Used as a scripted-environment stand-in for the `cryptography` package at the two module-level names
``passlib.totp._cg_ciphers`` / ``passlib.totp._cg_default_backend`` when that package is not installed, so that
the wallet clause of C15 (tags / costs / still-listed secrets: all of it library bookkeeping around one
``Cipher(AES(key), CTR(iv)).encryptor().update()`` call) can be enumerated on this host.  `self_check()` pins it to
the FIPS-197 C.3 block vector and the SP 800-38A F.5.5 CTR vector; c15 additionally replays the repository's own
stored-ciphertext vectors (tests/test_totp.py CIPHER1..3) through the library with the stand-in installed.
"""
from __future__ import annotations

import types


def _xtime(a):
    a <<= 1
    return (a ^ 0x11B) & 0xFF if a & 0x100 else a


def _build_sbox():
    # multiplicative inverse in GF(2^8) via log tables on generator 3, then the affine map
    exp, log = [0] * 510, [0] * 256
    x = 1
    for i in range(255):
        exp[i] = x
        log[x] = i
        x ^= _xtime(x)  # multiply by 3
    for i in range(255, 510):
        exp[i] = exp[i - 255]
    sbox = [0] * 256
    for a in range(256):
        inv = 0 if a == 0 else exp[255 - log[a]]
        s = inv
        for _ in range(4):
            inv = ((inv << 1) | (inv >> 7)) & 0xFF
            s ^= inv
        sbox[a] = s ^ 0x63
    return sbox


SBOX = _build_sbox()
_MUL2 = [_xtime(a) for a in range(256)]
_MUL3 = [_xtime(a) ^ a for a in range(256)]


def expand_key(key: bytes):
    nk = len(key) // 4
    if len(key) not in (16, 24, 32):
        raise ValueError("AES key must be 16, 24 or 32 bytes")
    nr = nk + 6
    w = [list(key[4 * i:4 * i + 4]) for i in range(nk)]
    rcon = 1
    for i in range(nk, 4 * (nr + 1)):
        t = list(w[i - 1])
        if i % nk == 0:
            t = t[1:] + t[:1]
            t = [SBOX[b] for b in t]
            t[0] ^= rcon
            rcon = _xtime(rcon)
        elif nk > 6 and i % nk == 4:
            t = [SBOX[b] for b in t]
        w.append([a ^ b for a, b in zip(w[i - nk], t)])
    return [sum(w[4 * r:4 * r + 4], []) for r in range(nr + 1)], nr


def encrypt_block(rk, nr, block: bytes) -> bytes:
    s = [b ^ k for b, k in zip(block, rk[0])]
    for r in range(1, nr + 1):
        s = [SBOX[b] for b in s]
        # ShiftRows (state is column-major: s[4*c + r])
        s = [s[4 * ((c + rr) % 4) + rr] for c in range(4) for rr in range(4)]
        if r != nr:
            t = []
            for c in range(4):
                a0, a1, a2, a3 = s[4 * c:4 * c + 4]
                t += [_MUL2[a0] ^ _MUL3[a1] ^ a2 ^ a3, a0 ^ _MUL2[a1] ^ _MUL3[a2] ^ a3,
                      a0 ^ a1 ^ _MUL2[a2] ^ _MUL3[a3], _MUL3[a0] ^ a1 ^ a2 ^ _MUL2[a3]]
            s = t
        s = [b ^ k for b, k in zip(s, rk[r])]
    return bytes(s)


def ctr_xor(key: bytes, iv: bytes, data: bytes) -> bytes:
    if len(iv) != 16:
        raise ValueError("CTR nonce must be 16 bytes")
    rk, nr = expand_key(key)
    ctr = int.from_bytes(iv, "big")
    out = bytearray()
    for off in range(0, len(data), 16):
        ks = encrypt_block(rk, nr, (ctr % (1 << 128)).to_bytes(16, "big"))
        out += bytes(a ^ b for a, b in zip(data[off:off + 16], ks))
        ctr += 1
    return bytes(out)


def self_check():
    bad = []
    rk, nr = expand_key(bytes(range(32)))
    if encrypt_block(rk, nr, bytes.fromhex("00112233445566778899aabbccddeeff")).hex() != "8ea2b7ca516745bfeafc49904b496089":
        bad.append("FIPS-197 C.3")
    rk, nr = expand_key(bytes(range(16)))
    if encrypt_block(rk, nr, bytes.fromhex("00112233445566778899aabbccddeeff")).hex() != "69c4e0d86a7b0430d8cdb78070b4c55a":
        bad.append("FIPS-197 C.1")
    key = bytes.fromhex("603deb1015ca71be2b73aef0857d77811f352c073b6108d72d9810a30914dff4")
    iv = bytes.fromhex("f0f1f2f3f4f5f6f7f8f9fafbfcfdfeff")
    pt = bytes.fromhex("6bc1bee22e409f96e93d7e117393172aae2d8a571e03ac9c9eb76fac45af8e51"
                       "30c81c46a35ce411e5fbc1191a0a52eff69f2445df4f9b17ad2b417be66c3710")
    ct = ("601ec313775789a5b7a7f504bbf3d228f443e3ca4d62b59aca84e990cacaf5c5"
          "2b0930daa23de94ce87017ba2d84988ddfc9c58db67aada613c2dd08457941a6")
    if ctr_xor(key, iv, pt).hex() != ct:
        bad.append("SP800-38A F.5.5")
    if ctr_xor(key, iv, pt[:21]).hex() != ct[:42]:
        bad.append("SP800-38A F.5.5 (partial block)")
    return bad


# ---- the shape passlib.totp expects of cryptography.hazmat.primitives.ciphers -----------------------------------
class _Ctx:
    def __init__(self, key, iv):
        self._key, self._iv, self._buf = key, iv, b""

    def update(self, data):
        self._buf += bytes(data)
        return b""

    def finalize(self):
        return ctr_xor(self._key, self._iv, self._buf)


class _Cipher:
    def __init__(self, algorithm, mode, backend=None):
        self._key, self._iv = algorithm.key, mode.nonce

    def encryptor(self):
        return _Ctx(self._key, self._iv)

    decryptor = encryptor


class _AES:
    def __init__(self, key):
        if len(key) not in (16, 24, 32):
            raise ValueError("Invalid key size for AES")
        self.key = bytes(key)


class _CTR:
    def __init__(self, nonce):
        if len(nonce) != 16:
            raise ValueError("Invalid nonce size for CTR")
        self.nonce = bytes(nonce)


standin_ciphers = types.SimpleNamespace(Cipher=_Cipher, algorithms=types.SimpleNamespace(AES=_AES),
                                        modes=types.SimpleNamespace(CTR=_CTR))


def install(totp_module):
    """install the stand-in iff the real package is absent; returns True when installed"""
    if totp_module._cg_ciphers is not None and totp_module._cg_ciphers is not standin_ciphers:
        return False
    totp_module._cg_ciphers = standin_ciphers
    totp_module._cg_default_backend = lambda: None
    totp_module.AES_SUPPORT = True
    return True
