"""setup_cmd: verifies the harness itself (imports, reference oracles vs. spec vectors / third parties)."""
import sys


def main():
    from mc import run

    run._assert_repo()
    from mc.refs import b64 as R
    import base64

    for d in (b"", b"a", b"ab", b"abc", bytes(range(256))):
        assert R.encode_bytes(d, R.STD, True) == base64.b64encode(d).rstrip(b"="), d
        assert R.decode_bytes(R.encode_bytes(d, R.H64, False), R.H64, False) == d
    try:
        from mc.refs import selfcheck as S
    except ImportError:
        S = None
    if S:
        S.main()
    print("selfcheck ok")
    return 0


if __name__ == "__main__":
    sys.exit(main())
