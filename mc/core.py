"""Shared plumbing: accumulators, context, evidence, known findings, replay files.

Every check module in mc/checks exposes

    ID, LEVEL, RULE           constants
    run(ctx)                  enumerate the bounded space, call ctx.* to account
    replay(case) -> list      re-evaluate ONE case (no explorer); returns the
                              list of (key, description) violations it shows

A *case* is a JSON-able dict (bytes are wrapped by enc()/dec()).  A violation
is identified by its *key* ``<property>|<component>|<case class>``; the key is
what known_findings.json refers to.
"""
from __future__ import annotations

import collections
import json
import multiprocessing
import os
import re
import sys
import time
import traceback

VERIF = os.path.dirname(os.path.dirname(os.path.abspath(__file__)))
REPO = os.environ.get("VERIF_REPO", "/repo")
NPROC = int(os.environ.get("VERIF_NPROC", "0")) or min(16, os.cpu_count() or 1)


class HarnessError(Exception):
    """the harness (oracle, scheduler, replay) is broken -- never a VIOLATION"""


# ---------------------------------------------------------------------------
# JSON helpers (bytes-safe)
# ---------------------------------------------------------------------------
def enc(o):
    if isinstance(o, bytes):
        return {"__b__": o.hex()}
    if isinstance(o, str):
        try:
            o.encode("utf-8")
        except UnicodeEncodeError:
            return {"__u__": [ord(c) for c in o]}
        return o
    if isinstance(o, (list, tuple)):
        return [enc(x) for x in o]
    if isinstance(o, (set, frozenset)):
        return [enc(x) for x in sorted(o, key=repr)]
    if isinstance(o, dict):
        return {str(k): enc(v) for k, v in o.items()}
    if o is None or isinstance(o, (bool, int, float)):
        return o
    return repr(o)


def dec(o):
    if isinstance(o, dict):
        if set(o) == {"__b__"}:
            return bytes.fromhex(o["__b__"])
        if set(o) == {"__u__"}:
            return "".join(chr(c) for c in o["__u__"])
        return {k: dec(v) for k, v in o.items()}
    if isinstance(o, list):
        return [dec(x) for x in o]
    return o


def short(o, n=120):
    s = repr(o)
    return s if len(s) <= n else s[: n - 3] + "..."


# ---------------------------------------------------------------------------
# accumulator (picklable; merged across worker processes)
# ---------------------------------------------------------------------------
class Acc:
    MAX_SAMPLES = 6

    def __init__(self):
        self.evaluations = 0
        self.classes = set()  # distinct non-trivial case classes
        self.hist = {}  # axis -> Counter
        self.outcomes = collections.Counter()
        self.violations = []  # (key, desc, case)
        self.samples = []
        self.counters = collections.Counter()  # free-form integer counters
        self.notes = []

    def ev(self, n=1):
        self.evaluations += n

    def cls(self, *parts):
        self.classes.add("|".join(str(p) for p in parts))

    def axis(self, name, value):
        self.hist.setdefault(name, collections.Counter())[str(value)] += 1

    def outcome(self, o):
        self.outcomes[str(o)] += 1

    def count(self, name, n=1):
        self.counters[name] += n

    def sample(self, s):
        if len(self.samples) < self.MAX_SAMPLES:
            self.samples.append(enc(s))

    def violation(self, key, desc, case):
        self.violations.append((key, desc, enc(case)))

    def merge(self, other):
        self.evaluations += other.evaluations
        self.classes |= other.classes
        for k, c in other.hist.items():
            self.hist.setdefault(k, collections.Counter()).update(c)
        self.outcomes.update(other.outcomes)
        self.violations.extend(other.violations)
        for s in other.samples:
            if len(self.samples) < self.MAX_SAMPLES:
                self.samples.append(s)
        self.counters.update(other.counters)
        self.notes.extend(other.notes)
        return self


# ---------------------------------------------------------------------------
# process pool (fork; deterministic sharding; results merged in shard order)
# ---------------------------------------------------------------------------
_WORK = {}


def _call(args):
    name, item = args
    fn = _WORK[name]
    try:
        return ("ok", fn(item))
    except HarnessError as e:
        return ("harness", f"{e}\n{traceback.format_exc()}")
    except BaseException as e:  # noqa: BLE001 - a crash in a worker is a harness problem
        return ("harness", f"worker crashed on {short(item)}: {e!r}\n{traceback.format_exc()}")


def pmap(fn, items, nproc=None, chunksize=1, fresh=False):
    """run fn(item) -> Acc for every item on a fork pool; returns merged Acc.

    items are evaluated completely (no early exit); merge order = item order,
    so the first violation kept per key is the first in enumeration order.
    """
    items = list(items)
    name = f"{fn.__module__}.{fn.__qualname__}"
    _WORK[name] = fn
    total = Acc()
    n = nproc or NPROC
    if n <= 1 or len(items) <= 1:
        results = [_call((name, it)) for it in items]
    else:
        ctx = multiprocessing.get_context("fork")
        # fresh=True: every item runs in a process forked from THIS one just for it (no state carried over from the item a
        # pooled worker happened to run before -- needed where a later item replays choices recorded by an earlier one)
        with ctx.Pool(min(n, len(items)), maxtasksperchild=1 if fresh else None) as pool:
            results = pool.map(_call, [(name, it) for it in items], chunksize)
    for status, val in results:
        if status != "ok":
            raise HarnessError(val)
        if val is not None:
            total.merge(val)
    return total


def chunked(seq, n):
    seq = list(seq)
    k = max(1, (len(seq) + n - 1) // n)
    return [seq[i : i + k] for i in range(0, len(seq), k)]


# ---------------------------------------------------------------------------
# known findings
# ---------------------------------------------------------------------------
def load_known():
    path = os.path.join(VERIF, "known_findings.json")
    if not os.path.exists(path):
        return {}
    with open(path) as fh:
        data = json.load(fh)
    out = {}
    for ent in data.get("known", []):
        out[ent["key"]] = ent
    return out


def safe_name(key):
    return re.sub(r"[^A-Za-z0-9_.=-]+", "_", key)[:150]


# ---------------------------------------------------------------------------
# check context
# ---------------------------------------------------------------------------
class Ctx:
    def __init__(self, pid, tier, seed, level):
        self.pid = pid
        self.tier = tier
        self.quick = tier == "quick"
        self.seed = seed
        self.level = level
        self.acc = Acc()
        self.cov = {}  # extra coverage keys (states, transitions, ...)
        self.assumptions = []
        self.caps = []
        self.exhaustive = True
        self.t0 = time.time()
        self.parts = {}  # name -> dict of per-part coverage

    # -- accounting ----------------------------------------------------
    def merge(self, acc, part=None):
        if part:
            p = self.parts.setdefault(part, {"evaluations": 0, "classes": 0, "violations": 0})
            p["evaluations"] += acc.evaluations
            p["classes"] += len(acc.classes)
            p["violations"] += len(acc.violations)
            for k, v in acc.counters.items():
                p[k] = p.get(k, 0) + v
        self.acc.merge(acc)

    def assume(self, text):
        if text not in self.assumptions:
            self.assumptions.append(text)

    def cap(self, text):
        self.caps.append(text)
        self.exhaustive = False

    def log(self, *a):
        print(f"[{self.pid} {time.time() - self.t0:6.1f}s]", *a, file=sys.stderr, flush=True)


def stable_hash(s):
    import hashlib

    return int.from_bytes(hashlib.sha256(s.encode()).digest()[:8], "big")


# ---------------------------------------------------------------------------
# running a function in a `python -O` child (asserts stripped, __debug__ False)
# ---------------------------------------------------------------------------
def call_in_child(modname, funcname, payload, optimized=True, timeout=3600):
    """import `modname` in a fresh interpreter (python -O when optimized) and return funcname(payload).

    payload / result travel pickled through temporary files; a crash is a HarnessError."""
    import pickle
    import subprocess
    import tempfile

    with tempfile.TemporaryDirectory(prefix="mc-child-") as d:
        pin, pout = os.path.join(d, "in.pkl"), os.path.join(d, "out.pkl")
        with open(pin, "wb") as fh:
            pickle.dump(payload, fh)
        code = (
            "import pickle,sys,importlib;"
            "m=importlib.import_module(sys.argv[1]);"
            "r=getattr(m,sys.argv[2])(pickle.load(open(sys.argv[3],'rb')));"
            "pickle.dump(r,open(sys.argv[4],'wb'))"
        )
        cmd = [sys.executable] + (["-O"] if optimized else []) + ["-c", code, modname, funcname, pin, pout]
        env = dict(os.environ, PYTHONHASHSEED="0", PASSLIB_BUILTIN_BCRYPT="enabled", PYTHONDONTWRITEBYTECODE="1")
        r = subprocess.run(cmd, cwd=VERIF, env=env, capture_output=True, text=True, timeout=timeout)
        if r.returncode != 0 or not os.path.exists(pout):
            raise HarnessError(f"child {modname}.{funcname} failed rc={r.returncode}: {r.stderr[-3000:]}")
        with open(pout, "rb") as fh:
            return pickle.load(fh)
