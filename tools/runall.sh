#!/bin/bash
# usage: tools/runall.sh [quick|thorough] [Cxx ...]   run the registered checks one after another against /repo; summary at the end
cd "$(dirname "$(readlink -f "$0")")/.." || exit 2
tier=${1:-quick}; shift
ids=${@:-C01 C02 C03 C04 C05 C06 C07 C08 C09 C10 C11 C12 C13 C14 C15 C16 C17 C18 C19 C20}
mkdir -p /tmp/runall
for c in $ids; do
  t0=$(date +%s)
  ./check $c --tier $tier > /tmp/runall/$c.$tier.log 2>&1
  rc=$?
  echo "$c $tier rc=$rc wall=$(( $(date +%s) - t0 ))s viol=$(grep -c '^VIOLATION' /tmp/runall/$c.$tier.log) known=$(grep -c '^KNOWN-FINDING' /tmp/runall/$c.$tier.log) harness=$(grep -c 'HARNESS-ERROR' /tmp/runall/$c.$tier.log)"
done | tee /tmp/runall/summary.$tier.txt
