#!/venv/bin/python
"""Run the pinned suite on a tree (default /repo) and report stable_pass tests that no longer pass.
usage: baseline.py [repo_dir]   exit 0 iff every stable_pass test passed"""
import json, os, subprocess, sys, tempfile, xml.etree.ElementTree as ET
repo = sys.argv[1] if len(sys.argv) > 1 else "/repo"
base = json.load(open("/root/.vp/BASELINE.json"))
want = set(base["stable_pass"])
fd, out = tempfile.mkstemp(suffix=".xml"); os.close(fd)
env = dict(os.environ); env.pop("PASSLIB_VERIF", None); env.pop("PASSLIB_BUILTIN_BCRYPT", None)
env["PYTHONPATH"] = repo
r = subprocess.run(["/venv/bin/python", "-m", "pytest", "-ra", "-q", "-p", "no:cacheprovider", "--timeout=900",
                    "--continue-on-collection-errors", f"--junitxml={out}"] + sys.argv[2:], cwd=repo, env=env, capture_output=True, text=True)
passed = set()
for tc in ET.parse(out).getroot().iter("testcase"):
    if not any(ch.tag in ("failure", "error", "skipped") for ch in tc):
        passed.add(f"{tc.get('classname')}::{tc.get('name')}")
os.unlink(out)
missing = sorted(want - passed)
print(r.stdout.strip().splitlines()[-1] if r.stdout.strip() else r.stderr[-500:])
print(f"stable_pass={len(want)} passed_now={len(passed)} stable_now_missing={len(missing)} newly_passing={len(passed - want)}")
for m in missing[:40]:
    print("  MISSING", m)
sys.exit(1 if missing else 0)
