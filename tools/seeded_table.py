#!/venv/bin/python
"""print the markdown table of filed seeded changes (for DESIGN.md section 10.4)"""
import glob, json, os, re
rows = []
for d in sorted(glob.glob("/verif/seeded/*/meta.json")):
    m = json.load(open(d))
    name = os.path.basename(os.path.dirname(d))
    patch = open(os.path.join(os.path.dirname(d), "patch.diff")).read()
    files = sorted(set(re.findall(r"^\+\+\+ b/(\S+)", patch, re.M)))
    caught = m.get("caught_by_after_strengthening") or m.get("caught_by") or []
    first = m.get("caught_by") or []
    note = ""
    if m.get("caught_by_after_strengthening") and set(first) != set(caught):
        note = f" (first run: {', '.join(first) or 'none'})"
    ok = "yes" if m.get("demo_ok") and m.get("suite_ok", True) else "NO"
    rows.append(f"| {name} | {', '.join(files)} | {m.get('summary', '')} | {ok} | {', '.join(caught) or '**missed**'}{note} |")
print("| seeded change | file(s) | what it breaks / what it needs | demo+suite confirmed | reported by (quick tier) |")
print("|---|---|---|---|---|")
print("\n".join(rows))
