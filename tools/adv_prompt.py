#!/venv/bin/python
"""print the prompt for one independent adversary sub-agent.
usage: adv_prompt.py <Cxx> <n>     (the agent gets the property text, its own worktree path, and one-line summaries of
the changes earlier adversaries made for this property -- nothing about /verif's checks)"""
import glob, json, os, sys

pid, n = sys.argv[1], sys.argv[2]
prop = None
for line in open("/verif/properties.jsonl"):
    d = json.loads(line)
    if d["id"] == pid:
        prop = d
earlier = []
for m in sorted(glob.glob(f"/verif/seeded/{pid}-*/meta.json")):
    s = json.load(open(m)).get("summary")
    if s:
        earlier.append("- " + s)
wt = f"/tmp/mut-{pid}-{n}"
print(f"""You are testing how good a verification effort is by playing the adversary.  Work ONLY inside your own scratch git
worktree of the repository: {wt} .  Create it first with
    git -C /repo worktree add {wt} HEAD
Never edit /repo itself, never read or touch /verif, never run git commit.  Use /venv/bin/python with
PYTHONPATH={wt} so that `import passlib` / `import libpass` pick up YOUR tree (check passlib.__file__).
No network.  The repository is ThirVondukr/passlib ("libpass", a fork of passlib: password hashing framework).

Here is ONE semantic property the library is supposed to satisfy (JSON: statement, quantifier, why unit tests cannot
settle it, anchors into the code):

{json.dumps(prop, indent=1, ensure_ascii=False)}

YOUR TASK: make ONE small, realistic change to the library source in your worktree (the kind of slip a maintainer
could make in a refactoring, an optimisation or a bug fix: a few lines, plausible-looking) that BREAKS this property
while the code still imports and the repository's existing test suite still passes.  The change must need something
SPECIFIC to manifest -- an unusual input, a particular length / boundary / encoding, a multi-step sequence of
operations, a particular option combination, a second call on the same object, state shared between objects, an
error path, a less-used entry point, a particular thread interleaving, or two cooperating sites that each look fine
alone -- NOT something ordinary use would expose at once.  Do not break the tests' own known-answer vectors.
Do not touch tests/ or docs/.

Earlier adversaries already made the following changes for this property; find a DIFFERENT weak spot (another
code path, another mechanism, another entry point, another kind of input), not a variation of these:
{chr(10).join(earlier) if earlier else '- (none yet)'}

Deliver exactly these files:
  {wt}                   the worktree with your change applied (uncommitted)
  {wt}.diff              `git -C {wt} diff > {wt}.diff`
  {wt}-demo.py           a small standalone program (no pytest needed) that exits 0 on the ORIGINAL code
                                     (`PYTHONPATH=/repo /venv/bin/python {wt}-demo.py`) and exits non-zero on YOUR tree
                                     (`PYTHONPATH={wt} /venv/bin/python {wt}-demo.py`), printing what went wrong.  It must
                                     be deterministic (own any randomness / clock it depends on) and finish within a minute.
Then confirm yourself:
  1. both demo runs behave as required;
  2. the pinned test suite still passes on your tree:
        cd {wt} && PYTHONPATH={wt} /venv/bin/python -m pytest -q -p no:cacheprovider --timeout=900 --continue-on-collection-errors -x -q tests 2>&1 | tail -5
     (On the ORIGINAL tree a handful of tests already fail / cannot be collected here -- e.g. missing optional
     packages; compare against `/venv/bin/python /tmp/adv/baseline.py {wt}` which prints stable_now_missing=0
     when no previously passing test broke.  Takes about 3 minutes.)
If the suite breaks, choose another change.  If you really find that no realistic change can survive the suite,
say so and explain.

Final answer (short): the one-sentence summary of the change (what it breaks, what it needs in order to manifest),
the file(s) touched, the results of steps 1 and 2, and -- separately -- any behaviour of the UNCHANGED library you
noticed on the way that already seems to violate the property (give a 3-line reproduction).  Leave the worktree in
place; do not delete your three deliverables.""")
