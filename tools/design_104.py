#!/venv/bin/python
"""regenerate the generated parts of DESIGN.md section 10.4 from seeded/*/meta.json:
   (a) the intro counts + the table 'first judgement and what was added' (every change first missed),
   (b) the full table at the end of the file."""
import glob, json, os, re, subprocess

D = "/verif/DESIGN.md"
s = open(D).read()
metas = []
for f in sorted(glob.glob("/verif/seeded/*/meta.json"), key=lambda p: (os.path.basename(os.path.dirname(p)).split("-")[0], int(os.path.basename(os.path.dirname(p)).split("-")[1]))):
    m = json.load(open(f)); m["_name"] = os.path.basename(os.path.dirname(f)); metas.append(m)
total = len(metas)
waves = max(int(m["_name"].split("-")[1]) for m in metas)
missed = [m for m in metas if m.get("note") and (m.get("caught_by_after_strengthening") is not None or not m.get("caught_by"))]
rows = "\n".join(f"| {m['_name']} | {m['note'].strip()} |" for m in missed if m.get("note"))
a0 = s.index("### 10.4 Demonstrated detection")
a1 = s.index("Three changes are filed but deliberately NOT reported")
intro = f"""### 10.4 Demonstrated detection — seeded changes

{total} property-breaking changes were written by fresh sub-agents that saw only the text of one property and their own
scratch worktree of /repo (nothing from /verif), {waves} waves of one change per property.  From the third wave on the adversaries
were also told what the earlier ones had changed and asked for a *different* weak spot (order dependence, shared
state, second representations, far-end values, option combinations, falsy-but-meaningful values, error paths,
other entry points, the second call on the same object).  Each change was kept only after I confirmed it myself
with `tools/seed.py`: the patch applies to the repaired HEAD, the agent's demonstration passes on /repo and fails
on the changed tree, the pinned suite (`tools/baseline.py`) still has `stable_now_missing=0`, and the named
check(s) were run against the changed tree (`VERIF_REPO=<worktree> ./check Cxx`).  Each is filed as
`seeded/<id>/{{patch.diff, demo.py, meta.json}}`; none was ever applied to /repo.  (C20-2 duplicated C20-1 and was
discarded.)  `tools/recheck_seeded.sh <id> Cxx…` re-judges a filed change against the current HEAD and checks;
`tools/adv_prompt.py Cxx N` prints the prompt an adversary gets, `tools/design_104.py` regenerates this section's tables.

"reported by" = checks whose **quick** tier prints a confirmed `VIOLATION` on the changed tree.  {len(missed)} of the {total}
changes were first missed (silent check, a detection the runner could not confirm, or a first judgement confounded by
un-repaired defects of the unchanged tree); in every case the check
was strengthened — never the change weakened — and re-run.  What was missing and what was added:

| change | first judgement and what was added |
|---|---|
{rows}

"""
s = s[:a0] + intro + s[a1:]
b0 = s.rindex("| seeded change | file(s) |")
table = subprocess.run(["/verif/tools/seeded_table.py"], capture_output=True, text=True).stdout
s = s[:b0] + table.rstrip("\n") + "\n"
open(D, "w").write(s)
print(total, "changes,", len(missed), "first missed,", waves, "waves")
