#!/venv/bin/python
"""Judge one seeded change produced by an independent sub-agent and file it under /verif/seeded/.

usage: seed.py <Cxx> <n> [--checks C01,C07] [--no-suite] [--keep]
expects /tmp/mut-<Cxx>-<n> (worktree with the change applied), /tmp/mut-<Cxx>-<n>.diff, /tmp/mut-<Cxx>-<n>-demo.py

steps: demo on /repo must pass, demo on the worktree must fail; pinned suite on the worktree must keep every
stable_pass test passing; the property's quick check (and any extra checks) run against the worktree;
writes seeded/<Cxx>-<n>/{patch.diff, demo.py, meta.json}; removes the worktree.
"""
import json
import os
import shutil
import subprocess
import sys
import time

VERIF = os.path.dirname(os.path.dirname(os.path.abspath(__file__)))


def sh(cmd, **kw):
    return subprocess.run(cmd, shell=isinstance(cmd, str), capture_output=True, text=True, **kw)


def main():
    pid, n = sys.argv[1], sys.argv[2]
    opts = sys.argv[3:]
    checks = [pid]
    for o in opts:
        if o.startswith("--checks"):
            checks = o.split("=", 1)[1].split(",") if "=" in o else opts[opts.index(o) + 1].split(",")
    wt = f"/tmp/mut-{pid}-{n}"
    diff = f"/tmp/mut-{pid}-{n}.diff"
    demo = f"/tmp/mut-{pid}-{n}-demo.py"
    out = os.path.join(VERIF, "seeded", f"{pid}-{n}")
    os.makedirs(out, exist_ok=True)
    meta = {"property": pid, "attempt": int(n), "judged_at_repo_commit": sh("git -C /repo rev-parse --short HEAD").stdout.strip()}
    # the diff: regenerate from the worktree to be sure it matches
    d = sh(f"git -C {wt} diff")
    patch = d.stdout
    if not patch.strip() and os.path.exists(diff):
        patch = open(diff).read()
    open(os.path.join(out, "patch.diff"), "w").write(patch)
    shutil.copy(demo, os.path.join(out, "demo.py"))
    meta["files_touched"] = sh(f"git -C {wt} diff --stat").stdout.strip().splitlines()
    # applies cleanly to /repo HEAD?
    chk = sh(f"git -C /repo apply --check {os.path.join(out, 'patch.diff')}")
    meta["applies_to_repo_head"] = chk.returncode == 0
    env0 = dict(os.environ, PYTHONPATH="/repo", PYTHONHASHSEED="0")
    env1 = dict(os.environ, PYTHONPATH=wt, PYTHONHASHSEED="0")
    r0 = sh(["/venv/bin/python", demo], env=env0, timeout=900)
    r1 = sh(["/venv/bin/python", demo], env=env1, timeout=900)
    meta["demo_on_original"] = {"rc": r0.returncode, "tail": (r0.stdout + r0.stderr)[-400:]}
    meta["demo_on_changed"] = {"rc": r1.returncode, "tail": (r1.stdout + r1.stderr)[-600:]}
    meta["demo_ok"] = r0.returncode == 0 and r1.returncode != 0
    if "--no-suite" not in opts:
        t0 = time.time()
        rs = sh([os.path.join(VERIF, "tools", "baseline.py"), wt], timeout=3600)
        meta["suite"] = {"rc": rs.returncode, "tail": rs.stdout[-600:], "wall_s": round(time.time() - t0)}
        meta["suite_ok"] = rs.returncode == 0
    res = {}
    for c in checks:
        t0 = time.time()
        rc = sh(["./check", c, "--tier", "quick"], cwd=VERIF, env=dict(os.environ, VERIF_REPO=wt), timeout=3600)
        lines = [l for l in rc.stdout.splitlines() if l.startswith(("VIOLATION", "KNOWN-FINDING", "HARNESS-ERROR"))]
        res[c] = {"rc": rc.returncode, "violations": len([l for l in lines if l.startswith("VIOLATION")]),
                  "first": [l[:400] for l in lines if l.startswith(("VIOLATION", "HARNESS"))][:3], "wall_s": round(time.time() - t0)}
    meta["checks_quick"] = res
    meta["caught_by"] = [c for c, r in res.items() if r["rc"] == 1 and r["violations"]]
    json.dump(meta, open(os.path.join(out, "meta.json"), "w"), indent=1)
    print(json.dumps(meta, indent=1)[:3000])
    if "--keep" not in opts:
        sh(f"git -C /repo worktree remove --force {wt}")
        for f in (diff, demo):
            if os.path.exists(f):
                os.remove(f)


if __name__ == "__main__":
    main()
