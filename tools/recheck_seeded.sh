#!/bin/bash
# usage: recheck_seeded.sh <seeded-dir-name> <Cxx> [Cyy...]   re-run checks against a filed seeded change
set -e
name=$1; shift
wt=/tmp/reseed-$name
git -C /repo worktree add -q $wt HEAD
trap "git -C /repo worktree remove --force $wt" EXIT
git -C $wt apply /verif/seeded/$name/patch.diff
for c in "$@"; do
  out=$(cd /verif && VERIF_REPO=$wt ./check $c --tier quick 2>&1 | grep -c "^VIOLATION" || true)
  echo "$name $c violations=$out"
done
